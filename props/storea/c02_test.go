package storea

import (
	"bytes"
	"testing"

	"github.com/pokt-network/pocket-core/store/cachekv"
	"github.com/pokt-network/pocket-core/store/dbadapter"
	"github.com/pokt-network/pocket-core/store/iavl"
	"github.com/pokt-network/pocket-core/store/prefix"
	"github.com/pokt-network/pocket-core/store/rootmulti/heightcache"
	stypes "github.com/pokt-network/pocket-core/store/types"
	dbm "github.com/tendermint/tm-db"
	"pgregory.net/rapid"

	"verif/harness"
	"verif/harness/kv"
)

// C02: a prefix store only observes and modifies parent keys that start with its prefix; iteration over
// any range returns exactly the parent's keys under the prefix, stripped, ordered, in both directions,
// including prefixes that end in 0xFF bytes.

var c02Alphabet = []byte{0x00, 'a', 'b', 0xFE, 0xFF}

func c02Bytes(rt *rapid.T, min, max int, label string) []byte {
	n := rapid.IntRange(min, max).Draw(rt, label+"-len")
	b := make([]byte, n)
	for i := range b {
		b[i] = rapid.SampledFrom(c02Alphabet).Draw(rt, label)
	}
	return b
}

// c02Prefix draws the prefix; the classes the property singles out get explicit weight.
func c02Prefix(rt *rapid.T) []byte {
	switch rapid.IntRange(0, 9).Draw(rt, "prefix-class") {
	case 0:
		return []byte{}
	case 1, 2:
		return bytes.Repeat([]byte{0xFF}, rapid.IntRange(1, 3).Draw(rt, "ff-len"))
	case 3, 4:
		head := c02Bytes(rt, 1, 2, "prefix-head")
		return append(head, bytes.Repeat([]byte{0xFF}, rapid.IntRange(1, 2).Draw(rt, "ff-tail"))...)
	default:
		return c02Bytes(rt, 1, 3, "prefix")
	}
}

// c02UpperNeighbour is used ONLY to generate keys right above the prefix range (never as an oracle).
func c02UpperNeighbour(p []byte) []byte {
	i := len(p)
	for i > 0 && p[i-1] == 0xFF {
		i--
	}
	if i == 0 {
		return nil
	}
	e := append([]byte{}, p[:i]...)
	e[i-1]++
	return e
}

// c02ParentKey draws a non-empty parent key that is inside the prefix range or adjacent to it.
func c02ParentKey(rt *rapid.T, p []byte) []byte {
	var k []byte
	switch rapid.IntRange(0, 7).Draw(rt, "pk-class") {
	case 0, 1, 2: // inside
		k = append(append([]byte{}, p...), c02Bytes(rt, 0, 2, "suffix")...)
	case 3: // just above the range
		if up := c02UpperNeighbour(p); up != nil {
			k = append(up, c02Bytes(rt, 0, 1, "up-suffix")...)
		}
	case 4: // just below the range
		if len(p) > 0 {
			k = append([]byte{}, p...)
			if rapid.Bool().Draw(rt, "truncate") || k[len(k)-1] == 0 {
				k = k[:len(k)-1]
			} else {
				k[len(k)-1]--
				k = append(k, bytes.Repeat([]byte{0xFF}, rapid.IntRange(0, 2).Draw(rt, "below-ff"))...)
			}
		}
	case 5: // shares a proper part of the prefix, then diverges
		if len(p) > 1 {
			k = append(append([]byte{}, p[:len(p)-1]...), c02Bytes(rt, 1, 2, "diverge")...)
		}
	}
	if len(k) == 0 {
		k = c02Bytes(rt, 1, 4, "anykey")
	}
	return k
}

func c02View(m kv.Model, p []byte) kv.Model {
	v := kv.Model{}
	for k, val := range m {
		if bytes.HasPrefix([]byte(k), p) {
			v[k[len(p):]] = val
		}
	}
	return v
}

// c02Adjacent: some key outside the prefix is a sort-order neighbour of a key inside it.
func c02Adjacent(m kv.Model, p []byte) bool {
	keys := m.SortedKeys()
	for i := 0; i+1 < len(keys); i++ {
		if bytes.HasPrefix([]byte(keys[i]), p) != bytes.HasPrefix([]byte(keys[i+1]), p) {
			return true
		}
	}
	return false
}

type c02Machine struct {
	c      *harness.Case
	p      []byte
	parent stypes.KVStore
	ps     stypes.KVStore
	model  kv.Model
}

func (m *c02Machine) noteNonTrivial() {
	if len(m.p) > 0 && c02Adjacent(m.model, m.p) {
		m.c.NonTrivial()
		m.c.Label("outside-key-adjacent-to-inside")
	}
}

func (m *c02Machine) scan(st stypes.KVStore, start, end []byte, rev bool) []kv.Pair {
	var it stypes.Iterator
	if rev {
		it, _ = st.ReverseIterator(start, end)
	} else {
		it, _ = st.Iterator(start, end)
	}
	return kv.Drain(it, 10000)
}

func (m *c02Machine) checkViewScan(start, end []byte, rev bool, where string) {
	got := m.scan(m.ps, start, end, rev)
	want := c02View(m.model, m.p).Range(start, end, rev)
	m.c.AddExtra("iterations_compared", 1)
	if !kv.EqualPairs(got, want) {
		m.c.Violation("C02/iterate/listing-differs-from-prefix-view",
			"%s: prefix %x range [%x,%x) reverse=%v: got %s want %s", where, m.p, start, end, rev, kv.Render(got), kv.Render(want))
	}
}

func (m *c02Machine) checkParent(where string) {
	got := m.scan(m.parent, nil, nil, false)
	want := m.model.Range(nil, nil, false)
	if !kv.EqualPairs(got, want) {
		m.c.Violation("C02/parent/contents-differ-from-model",
			"%s: prefix %x: parent holds %s want %s", where, m.p, kv.Render(got), kv.Render(want))
	}
}

// viewKey draws a key as seen through the prefix store: an existing one, a neighbour, or a fresh one.
func (m *c02Machine) viewKey(rt *rapid.T, allowEmpty bool) []byte {
	view := c02View(m.model, m.p).SortedKeys()
	var k []byte
	if len(view) > 0 && rapid.IntRange(0, 2).Draw(rt, "existing") > 0 {
		k = []byte(rapid.SampledFrom(view).Draw(rt, "ek"))
	} else {
		k = c02Bytes(rt, 0, 2, "vk")
	}
	if len(k) == 0 && (!allowEmpty || len(m.p) == 0) {
		k = c02Bytes(rt, 1, 2, "vk1")
	}
	if k == nil {
		k = []byte{}
	}
	return k
}

func TestC02(t *testing.T) {
	harness.Check(t, "C02",
		"prefix of 0-3 bytes from {00,a,b,fe,ff} (weighted: empty, all-ff, ff-tail), optionally split into two nested prefix stores; "+
			"parent = dbadapter/MemDB, cachekv over MemDB, or iavl.Store, preloaded with keys inside and adjacent to the prefix range "+
			"(prefix itself, prefix+suffix, predecessor, successor of the range, diverging siblings); rapid state machine: "+
			"get/has/set/delete through the prefix store, direct parent set/delete, forward/reverse iteration with bounds in {nil,key}, "+
			"cache flush / iavl commit; oracle = map model of the parent, view = {k[len(p):] | k has prefix p}; after every step full forward "+
			"and reverse view scans and a full parent scan are compared; PrefixEndBytes is checked as the interval characterisation "+
			"[p,end) == keys with prefix p over all generated keys. "+
			"non-trivial = non-empty prefix and the parent holds a key outside the prefix that is a sort-order neighbour of a key inside it while scans are compared",
		map[string]float64{"prefix-ends-ff": 0.25, "prefix-all-ff": 0.1, "prefix-empty": 0.05, "reverse": 0.3, "bounded-range": 0.3,
			"parent-iavl": 0.15, "parent-cachekv": 0.15, "outside-key-adjacent-to-inside": 0.4},
		func(rt *rapid.T, c *harness.Case) {
			p := c02Prefix(rt)
			c.Opf("prefix %x", p)
			switch {
			case len(p) == 0:
				c.Label("prefix-empty")
			case c05AllFF(p):
				c.Label("prefix-all-ff")
				c.Label("prefix-ends-ff")
			case p[len(p)-1] == 0xFF:
				c.Label("prefix-ends-ff")
			}
			m := &c02Machine{c: c, p: p, model: kv.Model{}}

			var flush func()
			switch rapid.IntRange(0, 3).Draw(rt, "parent-kind") {
			case 0, 1:
				c.Opf("parent memdb")
				m.parent = dbadapter.Store{DB: dbm.NewMemDB()}
			case 2:
				c.Opf("parent cachekv")
				c.Label("parent-cachekv")
				cs := cachekv.NewStore(dbadapter.Store{DB: dbm.NewMemDB()})
				m.parent = cs
				flush = cs.Write
			case 3:
				c.Opf("parent iavl")
				c.Label("parent-iavl")
				tree, err := iavl.NewMutableTree(dbm.NewMemDB(), rapid.SampledFrom([]int{0, 4, 1000}).Draw(rt, "iavl-cache"))
				if err != nil {
					rt.Fatalf("iavl tree: %v", err)
				}
				is := iavl.UnsafeNewStore(tree, 0, 0, heightcache.InvalidCache{})
				m.parent = is
				flush = func() { is.Commit() }
			}
			// the prefix store, optionally as two nested prefix stores whose prefixes concatenate to p
			if len(p) > 0 && rapid.IntRange(0, 3).Draw(rt, "nested") == 0 {
				cut := rapid.IntRange(0, len(p)).Draw(rt, "cut")
				c.Opf("nested %x|%x", p[:cut], p[cut:])
				c.Label("nested")
				m.ps = prefix.NewStore(prefix.NewStore(m.parent, append([]byte{}, p[:cut]...)), append([]byte{}, p[cut:]...))
			} else {
				m.ps = prefix.NewStore(m.parent, append([]byte{}, p...))
			}

			// PrefixEndBytes: [p, end) must be exactly the set of byte strings with prefix p (nil end = unbounded)
			pcopy := append([]byte{}, p...)
			end := stypes.PrefixEndBytes(pcopy)
			if !bytes.Equal(pcopy, p) {
				c.Violation("C02/prefix-end/input-mutated", "PrefixEndBytes(%x) changed its argument to %x", p, pcopy)
			}
			checkEnd := func(k []byte) {
				in := bytes.Compare(k, p) >= 0 && (end == nil || bytes.Compare(k, end) < 0)
				if in != bytes.HasPrefix(k, p) {
					c.Violation("C02/prefix-end/interval-differs-from-prefix-set",
						"PrefixEndBytes(%x)=%x (nil=%v): key %x in [p,end)=%v but hasPrefix=%v", p, end, end == nil, k, in, bytes.HasPrefix(k, p))
				}
			}
			if up := c02UpperNeighbour(p); up != nil {
				checkEnd(up)
			}
			checkEnd(append(append([]byte{}, p...), 0xFF, 0xFF, 0xFF))

			n := rapid.IntRange(0, 14).Draw(rt, "preload")
			for i := 0; i < n; i++ {
				k, v := c02ParentKey(rt, p), kv.Value().Draw(rt, "pv")
				c.Opf("preload %x=%x", k, v)
				checkEnd(k)
				_ = m.parent.Set(k, v)
				m.model[string(k)] = v
			}
			if flush != nil && rapid.Bool().Draw(rt, "flush-preload") {
				c.Opf("flush")
				flush()
			}

			rt.Repeat(map[string]func(*rapid.T){
				"pset": func(rt *rapid.T) {
					k, v := m.viewKey(rt, true), kv.Value().Draw(rt, "v")
					c.Opf("pset %x=%x", k, v)
					if len(k) == 0 {
						c.Label("empty-suffix-key")
					}
					_ = m.ps.Set(k, v)
					m.model[string(p)+string(k)] = v
				},
				"pdelete": func(rt *rapid.T) {
					k := m.viewKey(rt, true)
					c.Opf("pdelete %x", k)
					_ = m.ps.Delete(k)
					delete(m.model, string(p)+string(k))
				},
				"pget": func(rt *rapid.T) {
					k := m.viewKey(rt, true)
					c.Opf("pget %x", k)
					got, _ := m.ps.Get(k)
					want, ok := m.model[string(p)+string(k)]
					c.AddExtra("reads_compared", 1)
					if ok != (got != nil) || !bytes.Equal(got, want) {
						c.Violation("C02/get/value-differs-from-prefix-view", "prefix %x get %x: got %x (nil=%v) want %x (present=%v)", p, k, got, got == nil, want, ok)
					}
					has, _ := m.ps.Has(k)
					if has != ok {
						c.Violation("C02/has/differs-from-prefix-view", "prefix %x has %x: got %v want %v", p, k, has, ok)
					}
				},
				"parentSet": func(rt *rapid.T) {
					k, v := c02ParentKey(rt, p), kv.Value().Draw(rt, "v")
					c.Opf("parentSet %x=%x", k, v)
					checkEnd(k)
					_ = m.parent.Set(k, v)
					m.model[string(k)] = v
				},
				"parentDelete": func(rt *rapid.T) {
					keys := m.model.SortedKeys()
					if len(keys) == 0 {
						rt.Skip("empty parent")
					}
					k := []byte(rapid.SampledFrom(keys).Draw(rt, "dk"))
					c.Opf("parentDelete %x", k)
					_ = m.parent.Delete(k)
					delete(m.model, string(k))
				},
				"iterate": func(rt *rapid.T) {
					var s, e []byte
					if rapid.IntRange(0, 2).Draw(rt, "hasStart") > 0 {
						s = m.viewKey(rt, false)
					}
					if rapid.IntRange(0, 2).Draw(rt, "hasEnd") > 0 {
						e = m.viewKey(rt, false)
					}
					if s != nil && e != nil && bytes.Compare(s, e) > 0 {
						s, e = e, s
					}
					rev := rapid.Bool().Draw(rt, "rev")
					c.Opf("iterate [%x,%x) rev=%v", s, e, rev)
					if rev {
						c.Label("reverse")
					}
					if s != nil || e != nil {
						c.Label("bounded-range")
					}
					m.noteNonTrivial()
					m.checkViewScan(s, e, rev, "iterate")
				},
				"flush": func(rt *rapid.T) {
					if flush == nil {
						rt.Skip("plain parent")
					}
					c.Opf("flush")
					flush()
				},
				"": func(rt *rapid.T) {
					m.noteNonTrivial()
					m.checkViewScan(nil, nil, false, "invariant")
					m.checkViewScan(nil, nil, true, "invariant")
					m.checkParent("invariant")
				},
			})
		})
}
