#!/usr/bin/env python3
"""Regenerates MANIFEST.json from registry.py (run after editing the registry)."""
import json, os, sys
ROOT = os.path.dirname(os.path.abspath(__file__))
sys.path.insert(0, ROOT)
from registry import CHECKS, NOT_APPLICABLE, HOOK_COMMITS

props = [json.loads(l) for l in open(os.path.join(ROOT, "properties.jsonl"))]
checks = []
for p in props:
    pid = p["id"]
    if pid not in CHECKS:
        continue
    c = CHECKS[pid]
    checks.append({
        "property_id": pid,
        "quick_cmd": "./check %s quick" % pid,
        "thorough_cmd": "./check %s thorough" % pid,
        "evidence_file": "/verif/evidence/%s.json" % pid,
        "replay_cmd_template": "./check %s quick --replay {path}" % pid,
        "engine": "rapid-go",
        "level_claimed": {"category": c.get("level", "exploration"), "text": c["level_text"], "design_ref": c.get("design_ref", "DESIGN.md §7 " + pid)},
        "level_note": c["level_note"],
        "technique": c["technique"],
    })
na = []
for p in props:
    if p["id"] not in CHECKS:
        na.append({"property_id": p["id"], "reason": NOT_APPLICABLE.get(p["id"], "check not built yet in this round (planned in DESIGN.md §7); not claimed until it runs clean on the unchanged tree")})
m = {
    "version": 1,
    "setup_cmd": "./setup.sh",
    "hooks": {
        "guard": "verif",
        "enable": "go build tag: every check builds /repo with `-tags verif` (go test -c -tags verif ./props/<group>, module replace => /repo)",
        "baseline_off_cmd": "cd /repo && GOFLAGS=-mod=mod go test -vet=off -count=1 -timeout 25m ./...",
        "source_commits": HOOK_COMMITS,
        "add_only": True,
    },
    "engines": [{
        "name": "rapid-go", "path": "/verif/check",
        "serves_properties": sorted(CHECKS.keys()),
        "kind_free_text": "property-based testing with pgregory.net/rapid v1.3.0 (stateful machines + generators), Go native fuzzing for byte-level targets in the thorough tier; python3 driver ./check builds props/<group> against /repo's working tree, shards, merges statistics into evidence, maps results to exit 0/1/2",
    }],
    "checks": checks,
    "not_applicable": na,
    "notes": "exit 2 = inconclusive (build failure, timeout, worker death, generator-class floor not met); only an oracle mismatch gives exit 1 + VIOLATION line. Known findings: /verif/known_findings.json.",
}
json.dump(m, open(os.path.join(ROOT, "MANIFEST.json"), "w"), indent=1)
print("MANIFEST.json: %d checks, %d not_applicable" % (len(checks), len(na)))
