#!/bin/sh
# Warms the Go build cache for every props package (offline, from files on disk only).
set -e
cd "$(dirname "$0")"
export GOFLAGS=-mod=mod GOPROXY=off GOSUMDB=off GOTOOLCHAIN=local
[ -f go.sum ] || cp /repo/go.sum go.sum
T=$(mktemp -d)
trap 'rm -rf "$T"' EXIT
for d in props/*/; do
  g=$(basename "$d")
  go test -c -tags verif -vet=off -o "$T/$g.test" "./props/$g" || { echo "setup: build of $g failed" >&2; exit 1; }
done
echo "setup ok"
