#!/bin/bash
# sequential thorough tier over the given ids (default: all), results appended to .work/thorough.log
cd "$(dirname "$0")"; mkdir -p .work/logs
ids=${@:-$(python3 -c "import json;print(' '.join(c['property_id'] for c in json.load(open('MANIFEST.json'))['checks']))")}
for id in $ids; do
  t0=$(date +%s)
  ./check $id thorough > .work/logs/$id.thorough.log 2>&1; rc=$?
  echo "$id rc=$rc $(( $(date +%s)-t0 ))s $(grep -v KNOWN .work/logs/$id.thorough.log | tail -1 | cut -c1-200)" >> .work/thorough.log
done
echo ALLDONE >> .work/thorough.log
