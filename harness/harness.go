// Package harness is the shared bookkeeping layer of every property check:
// per-case statistics (evaluations, class histogram, distinct non-trivial digests, samples),
// violation records and known-finding handling. It contains no oracle.
package harness

import (
	"crypto/sha256"
	"encoding/hex"
	"encoding/json"
	"fmt"
	"os"
	"runtime/debug"
	"sort"
	"strings"
	"sync"
	"testing"

	"pgregory.net/rapid"
)

// Environment contract with the ./check driver.
const (
	EnvStats   = "VERIF_STATS"   // path: JSON stats written at the end of the test
	EnvFailRec = "VERIF_FAILREC" // path: JSON violation record (last write wins = shrunk case)
	EnvKnown   = "VERIF_KNOWN"   // path of known_findings.json
	EnvTier    = "VERIF_TIER"    // quick | thorough
)

const maxSamples = 6
const maxSampleLen = 1800

type knownFinding struct {
	Property  string `json:"property"`
	Signature string `json:"signature"`
	Text      string `json:"text"`
	Status    string `json:"status"` // "open" or "fixed:<commit>"
}

type stats struct {
	mu            sync.Mutex
	Property      string             `json:"property"`
	Rule          string             `json:"rule"`
	Evaluations   int                `json:"evaluations"`
	NonTrivial    int                `json:"nontrivial"`
	Digests       []string           `json:"digests"` // distinct non-trivial case digests (16 hex chars)
	Classes       map[string]int     `json:"classes"`
	Samples       []string           `json:"samples"`
	KnownHits     map[string]int     `json:"known_hits"`
	KnownSamples  map[string]string  `json:"known_samples"`
	Floors        map[string]float64 `json:"floors"`
	FloorFailures []string           `json:"floor_failures"`
	Extra         map[string]any     `json:"extra"`
	Failed        bool               `json:"failed"`
	digestSet     map[string]struct{}
	frozen        bool
}

var (
	allStats   = map[string]*stats{}
	allStatsMu sync.Mutex
	knownOnce  sync.Once
	known      []knownFinding
)

func loadKnown() {
	knownOnce.Do(func() {
		p := os.Getenv(EnvKnown)
		if p == "" {
			return
		}
		b, err := os.ReadFile(p)
		if err != nil {
			return
		}
		var f struct {
			Findings []knownFinding `json:"findings"`
		}
		if json.Unmarshal(b, &f) == nil {
			known = f.Findings
		}
	})
}

// Thorough reports whether the run is the thorough tier.
func Thorough() bool { return os.Getenv(EnvTier) == "thorough" }

func getStats(prop, rule string) *stats {
	allStatsMu.Lock()
	defer allStatsMu.Unlock()
	s := allStats[prop]
	if s == nil {
		s = &stats{Property: prop, Rule: rule, Classes: map[string]int{}, KnownHits: map[string]int{}, KnownSamples: map[string]string{},
			Floors: map[string]float64{}, Extra: map[string]any{}, digestSet: map[string]struct{}{}}
		allStats[prop] = s
	}
	return s
}

// Case is the per-generated-case recorder handed to a property body.
type Case struct {
	rt         *rapid.T
	tb         testing.TB
	st         *stats
	prop       string
	ops        []string
	labels     map[string]struct{}
	nontrivial bool
	done       bool
	digestKey  []byte
}

// Check runs a rapid property with bookkeeping. rule states how cases are generated and what makes
// one non-trivial. floors maps class label -> minimal fraction of cases that must carry it
// (generator regression guard; enforced by the driver as exit 2, never as a violation).
func Check(t *testing.T, prop, rule string, floors map[string]float64, body func(rt *rapid.T, c *Case)) {
	t.Helper()
	loadKnown()
	st := getStats(prop, rule)
	for k, v := range floors {
		st.Floors[k] = v
	}
	t.Cleanup(func() { st.flush(t.Failed()) })
	rapid.Check(t, func(rt *rapid.T) {
		c := &Case{rt: rt, st: st, prop: prop, labels: map[string]struct{}{}}
		defer c.finish()
		if c.guard(func() { body(rt, c) }) {
			c.done = true
		}
	})
}

// guard runs a property body. A panic that ORIGINATES in the code under test (the innermost frame that belongs to either
// the harness or pocket-core is a pocket-core frame) for a generated - legal - input is a violation of every listed
// property (each promises a result, not a crash) and is reported as one, with the panicking function in the signature;
// checks that expect a documented panic recover it themselves and never get here. Panics that originate in harness code
// and rapid's own control-flow panics are passed on unchanged (the driver maps the former to "inconclusive").
func (c *Case) guard(body func()) (completed bool) {
	defer func() {
		r := recover()
		if r == nil {
			return
		}
		if strings.HasPrefix(fmt.Sprintf("%T", r), "rapid.") || strings.HasPrefix(fmt.Sprintf("%T", r), "*rapid.") {
			panic(r)
		}
		stack := string(debug.Stack())
		fn, inCUT := panicOrigin(stack)
		if !inCUT {
			panic(fmt.Sprintf("%v\n[stack at the original panic]\n%s", r, stack))
		}
		completed = false
		c.Violation(c.prop+"/panic-in-code-under-test/"+fn, "the code under test panicked on a generated input: %v (in %s); case so far: %s", r, fn, strings.Join(lastN(c.ops, 6), " ; "))
	}()
	body()
	return true
}

func lastN(s []string, n int) []string {
	if len(s) > n {
		return s[len(s)-n:]
	}
	return s
}

const cutPrefix = "github.com/pokt-network/pocket-core/"

// panicOrigin finds, in a debug.Stack() taken while panicking, the innermost frame below the panic call that belongs to
// pocket-core or to the harness, and says which of the two it is.
func panicOrigin(stack string) (fn string, inCUT bool) {
	lines := strings.Split(stack, "\n")
	start := -1
	for i, l := range lines {
		if strings.HasPrefix(l, "panic(") {
			start = i // the last panic( line is the original one when a deferred function re-panicked
		}
	}
	if start < 0 {
		return "", false
	}
	for _, l := range lines[start+1:] {
		if strings.HasPrefix(l, "\t") || l == "" {
			continue
		}
		name := l
		if i := strings.LastIndex(name, "("); i > 0 {
			name = name[:i]
		}
		switch {
		case strings.HasPrefix(name, cutPrefix):
			return strings.TrimPrefix(name, cutPrefix), true
		case strings.HasPrefix(name, "verif/"):
			return name, false
		}
	}
	return "", false
}

// Enumerate runs an exhaustive (non-random) enumeration: body calls each(name, f) for every point of the
// finite space; each point is one recorded case.
func Enumerate(t *testing.T, prop, rule string, body func(each func(name string, f func(c *Case)))) {
	t.Helper()
	loadKnown()
	st := getStats(prop, rule)
	t.Cleanup(func() { st.flush(t.Failed()) })
	body(func(name string, f func(c *Case)) {
		c := &Case{st: st, prop: prop, labels: map[string]struct{}{}, tb: t}
		c.Opf("%s", name)
		defer c.finish()
		if c.guard(func() { f(c) }) {
			c.done = true
		}
	})
}

func (c *Case) finish() {
	if !c.done {
		return // failed, skipped (rapid invalid-data) or panicked: not counted
	}
	st := c.st
	st.mu.Lock()
	defer st.mu.Unlock()
	if st.frozen {
		return
	}
	st.Evaluations++
	for l := range c.labels {
		st.Classes[l]++
	}
	if c.nontrivial {
		st.NonTrivial++
		h := sha256.New()
		if c.digestKey != nil {
			h.Write(c.digestKey)
		} else {
			for _, o := range c.ops {
				h.Write([]byte(o))
				h.Write([]byte{0})
			}
		}
		d := hex.EncodeToString(h.Sum(nil)[:8])
		if _, ok := st.digestSet[d]; !ok {
			st.digestSet[d] = struct{}{}
			if len(st.Samples) < maxSamples {
				s := strings.Join(c.ops, " ; ")
				if len(s) > maxSampleLen {
					s = s[:maxSampleLen] + "…"
				}
				st.Samples = append(st.Samples, s)
			}
		}
	}
}

// Opf records one generated element of the case (operation, input); the ordered list is the rendered
// case used for samples, digests and violation records.
func (c *Case) Opf(format string, args ...any) {
	c.ops = append(c.ops, fmt.Sprintf(format, args...))
}

// Digest overrides the default digest (hash of the rendered ops).
func (c *Case) Digest(b []byte) { c.digestKey = append([]byte(nil), b...) }

// Label adds a class label to the case.
func (c *Case) Label(l string) { c.labels[l] = struct{}{} }

// NonTrivial marks the case as non-trivial by the property's stated rule.
func (c *Case) NonTrivial() { c.nontrivial = true }

// Extra stores a free-form key in the evidence (last write wins).
func (c *Case) Extra(k string, v any) {
	c.st.mu.Lock()
	c.st.Extra[k] = v
	c.st.mu.Unlock()
}

// AddExtra adds n to an integer counter in the evidence extras.
func (c *Case) AddExtra(k string, n int) {
	c.st.mu.Lock()
	cur, _ := c.st.Extra[k].(int)
	c.st.Extra[k] = cur + n
	c.st.mu.Unlock()
}

// Ops returns the rendered case so far.
func (c *Case) Ops() []string { return c.ops }

// Violation reports an oracle mismatch. sig is the stable signature (call site + manifestation).
// If an *open* known finding with exactly this property and signature is listed, the hit is counted and
// Violation returns true (the caller skips that one comparison and continues). Otherwise the violation
// record is written and the case fails.
func (c *Case) Violation(sig string, format string, args ...any) bool {
	msg := fmt.Sprintf(format, args...)
	for _, k := range known {
		if k.Property == c.prop && k.Signature == sig && k.Status == "open" {
			c.st.mu.Lock()
			c.st.KnownHits[sig]++
			if _, ok := c.st.KnownSamples[sig]; !ok {
				m := msg
				if len(m) > 1200 {
					m = m[:1200] + "…"
				}
				c.st.KnownSamples[sig] = m
			}
			c.st.mu.Unlock()
			return true
		}
	}
	c.st.mu.Lock()
	c.st.frozen = true
	c.st.Failed = true
	c.st.mu.Unlock()
	rec := map[string]any{"property": c.prop, "signature": sig, "message": msg, "case": c.ops}
	if p := os.Getenv(EnvFailRec); p != "" {
		b, _ := json.MarshalIndent(rec, "", " ")
		_ = os.WriteFile(p, b, 0o644)
	}
	if c.rt != nil {
		c.rt.Fatalf("VIOLATION-RECORD property=%s sig=%s: %s", c.prop, sig, msg)
	} else if c.tb != nil {
		c.tb.Fatalf("VIOLATION-RECORD property=%s sig=%s: %s", c.prop, sig, msg)
	}
	panic("unreachable")
}

func (s *stats) flush(failed bool) {
	s.mu.Lock()
	defer s.mu.Unlock()
	p := os.Getenv(EnvStats)
	if p == "" {
		return
	}
	s.Digests = s.Digests[:0]
	for d := range s.digestSet {
		s.Digests = append(s.Digests, d)
	}
	sort.Strings(s.Digests)
	s.FloorFailures = nil
	if !failed && s.Evaluations > 0 {
		for cl, fl := range s.Floors {
			if float64(s.Classes[cl]) < fl*float64(s.Evaluations) {
				s.FloorFailures = append(s.FloorFailures, fmt.Sprintf("%s: %d/%d < %.3f", cl, s.Classes[cl], s.Evaluations, fl))
			}
		}
		sort.Strings(s.FloorFailures)
	}
	b, _ := json.Marshal(s)
	_ = os.WriteFile(p, b, 0o644)
}
