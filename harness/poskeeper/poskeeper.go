// Package poskeeper builds the REAL x/auth, x/gov, x/nodes and x/apps keepers of pocket-core, wired the
// way app.NewPocketCoreApp wires them (same subspaces, same module-account permissions, same cross
// references), on a rootmulti store over a private MemDB, together with an sdk.Context.
// It contains no oracle: only construction, raw-state readers and the reset of the process globals
// the code under test reads.
//
// Usage (one Harness per generated case):
//
//	h := poskeeper.New(poskeeper.Options{Height: 80000, Features: map[string]int64{codec.RSCALKey: 1}})
//	_, pub, addr := poskeeper.Key(1)
//	h.AddValidator(poskeeper.ValidatorSpec{PubKey: pub, Stake: sdk.NewInt(15_000_000_000)})
//	h.Nodes.RewardForRelays(h.Ctx, sdk.NewInt(100), addr)
//	h.Balance(addr); h.Supply(); h.SumOfBalances()
//
// Facts worth knowing (all read from /repo, none invented):
//   - The binary codec switches from amino to proto at codec.UpgradeCodecHeight (30024) unless
//     codec.UpgradeHeight/TestMode say otherwise: state written at one side of that height cannot be read at
//     the other. New writes everything at Options.Height, so keep every later ctx height on the same side.
//   - Feature gates are process globals (codec.UpgradeFeatureMap, codec.TestMode, codec.UpgradeHeight,
//     codec.OldUpgradeHeight). New resets all four from Options at every call.
//   - nodes SetParams silently skips the parameters that are gated by a feature (RSCAL: the four
//     ServicerStake* params, PerChainRTTM: RelaysToTokensMultiplierMap) while that feature is not active at
//     the ctx height.
package poskeeper

import (
	"crypto/ed25519"
	"crypto/sha256"
	"encoding/binary"
	"fmt"
	"sort"
	"sync"
	"time"

	"github.com/pokt-network/pocket-core/codec"
	cdctypes "github.com/pokt-network/pocket-core/codec/types"
	"github.com/pokt-network/pocket-core/crypto"
	"github.com/pokt-network/pocket-core/store"
	sdk "github.com/pokt-network/pocket-core/types"
	"github.com/pokt-network/pocket-core/types/module"
	apps "github.com/pokt-network/pocket-core/x/apps"
	appsKeeper "github.com/pokt-network/pocket-core/x/apps/keeper"
	appsTypes "github.com/pokt-network/pocket-core/x/apps/types"
	"github.com/pokt-network/pocket-core/x/auth"
	authexported "github.com/pokt-network/pocket-core/x/auth/exported"
	authTypes "github.com/pokt-network/pocket-core/x/auth/types"
	"github.com/pokt-network/pocket-core/x/gov"
	govKeeper "github.com/pokt-network/pocket-core/x/gov/keeper"
	govTypes "github.com/pokt-network/pocket-core/x/gov/types"
	"github.com/pokt-network/pocket-core/x/nodes"
	nodesKeeper "github.com/pokt-network/pocket-core/x/nodes/keeper"
	nodesTypes "github.com/pokt-network/pocket-core/x/nodes/types"
	pocket "github.com/pokt-network/pocket-core/x/pocketcore"
	pocketTypes "github.com/pokt-network/pocket-core/x/pocketcore/types"
	abci "github.com/tendermint/tendermint/abci/types"
	cryptoamino "github.com/tendermint/tendermint/crypto/encoding/amino"
	"github.com/tendermint/tendermint/libs/log"
	tmtypes "github.com/tendermint/tendermint/types"
	dbm "github.com/tendermint/tm-db"
)

// DefaultHeight is above every hard-coded historical height in /repo/codec (NonCustodial2AllowanceHeight = 74622).
const DefaultHeight int64 = 80000

// ModuleAccountPermissions mirrors app/pocket.go moduleAccountPermissions.
func ModuleAccountPermissions() map[string][]string {
	return map[string][]string{
		auth.FeeCollectorName:     {auth.Burner, auth.Minter, auth.Staking},
		nodesTypes.StakedPoolName: {auth.Burner, auth.Minter, auth.Staking},
		appsTypes.StakedPoolName:  {auth.Burner, auth.Minter, auth.Staking},
		govTypes.DAOAccountName:   {auth.Burner, auth.Minter, auth.Staking},
		nodesTypes.ModuleName:     {auth.Burner, auth.Minter, auth.Staking},
		appsTypes.ModuleName:      nil,
	}
}

var (
	cdcOnce sync.Once
	theCdc  *codec.Codec
)

// Codec returns the process-wide codec, registered exactly like app.MakeCodec (the module RegisterCodec
// functions also set each module's global ModuleCdc, so it is built once per process).
func Codec() *codec.Codec {
	cdcOnce.Do(func() {
		c := codec.NewCodec(cdctypes.NewInterfaceRegistry())
		module.NewBasicManager(
			apps.AppModuleBasic{},
			auth.AppModuleBasic{},
			gov.AppModuleBasic{},
			nodes.AppModuleBasic{},
			pocket.AppModuleBasic{},
		).RegisterCodec(c)
		sdk.RegisterCodec(c)
		crypto.RegisterAmino(c.AminoCodec().Amino)
		cryptoamino.RegisterAmino(c.AminoCodec().Amino)
		codec.RegisterEvidences(c.AminoCodec(), c.ProtoCodec())
		theCdc = c
	})
	return theCdc
}

// AllFeatures lists every named feature key the codec package knows.
var AllFeatures = []string{
	codec.UpgradeCodecUpdateKey, codec.ValidatorSplitUpdateKey, codec.NonCustodialUpdateKey,
	codec.EnforceMaxChainsUpdateKey, codec.TxCacheEnhancementKey, codec.MaxRelayProtKey, codec.ReplayBurnKey,
	codec.BlockSizeModifyKey, codec.RSCALKey, codec.VEDITKey, codec.OutputAddressEditKey,
	codec.ClearUnjailedValSessionKey, codec.PerChainRTTM, codec.AppTransferKey, codec.RewardDelegatorsKey,
}

// FeaturesAllOn returns a feature map with every known feature active from height h.
func FeaturesAllOn(h int64) map[string]int64 {
	m := map[string]int64{}
	for _, k := range AllFeatures {
		m[k] = h
	}
	return m
}

// ResetGlobals sets the codec feature-gate globals: a fresh copy of features (nil = none active),
// TestMode, and UpgradeHeight/OldUpgradeHeight (upgradeHeight 0 = the package default math.MaxInt64).
func ResetGlobals(features map[string]int64, testMode, upgradeHeight, oldUpgradeHeight int64) {
	m := make(map[string]int64, len(features))
	for k, v := range features {
		m[k] = v
	}
	codec.UpgradeFeatureMap = m
	codec.TestMode = testMode
	if upgradeHeight == 0 {
		upgradeHeight = int64(^uint64(0) >> 1)
	}
	codec.UpgradeHeight = upgradeHeight
	codec.OldUpgradeHeight = oldUpgradeHeight
}

// Options configures New. Zero value = height 80000, no named feature active, default params.
type Options struct {
	Height           int64            // ctx block height (0 = DefaultHeight)
	Time             time.Time        // ctx block time (zero = 2023-01-01T00:00:00Z)
	Features         map[string]int64 // copied into codec.UpgradeFeatureMap (feature -> activation height)
	TestMode         int64            // codec.TestMode
	UpgradeHeight    int64            // codec.UpgradeHeight (0 = default MaxInt64)
	OldUpgradeHeight int64            // codec.OldUpgradeHeight
	NodesParams      *nodesTypes.Params
	AuthParams       *authTypes.Params
	AppsParams       *appsTypes.Params
	DAOOwner         sdk.Address // owner of every ACL entry and gov DAOOwner (nil = Key(0xDA0) address)
	Logger           log.Logger  // nil = nop
}

// Harness holds the wired keepers. Keepers are values (as in the app); Nodes.PocketKeeper and
// Apps.PocketKeeper are a no-op stub (only ClearSessionCache is ever called through them).
type Harness struct {
	Ctx   sdk.Context
	Cdc   *codec.Codec
	DB    dbm.DB
	MS    sdk.CommitMultiStore
	Keys  map[string]*sdk.KVStoreKey
	TKeys map[string]*sdk.TransientStoreKey

	Auth  auth.Keeper
	Nodes nodesKeeper.Keeper
	Apps  appsKeeper.Keeper
	Gov   govKeeper.Keeper

	DAOOwner sdk.Address
}

type stubPocketKeeper struct{}

func (stubPocketKeeper) ClearSessionCache() {}

// DefaultNodesParams = nodesTypes.DefaultParams plus the RSCAL parameter defaults that
// nodes.ActivateAdditionalParameters installs on the activation height.
func DefaultNodesParams() nodesTypes.Params {
	p := nodesTypes.DefaultParams()
	p.ServicerStakeFloorMultiplier = nodesTypes.DefaultServicerStakeFloorMultiplier
	p.ServicerStakeWeightMultiplier = nodesTypes.DefaultServicerStakeWeightMultiplier
	p.ServicerStakeWeightCeiling = nodesTypes.DefaultServicerStakeWeightCeiling
	p.ServicerStakeFloorMultiplierExponent = nodesTypes.DefaultServicerStakeFloorMultiplierExponent
	p.RelaysToTokensMultiplierMap = map[string]int64{}
	return p
}

// New resets the codec globals from opt and builds stores, keepers, module accounts, params and an
// empty supply at opt.Height. It panics on construction errors (a harness bug, never a verdict).
func New(opt Options) *Harness {
	ResetGlobals(opt.Features, opt.TestMode, opt.UpgradeHeight, opt.OldUpgradeHeight)
	if opt.Height == 0 {
		opt.Height = DefaultHeight
	}
	if opt.Time.IsZero() {
		opt.Time = time.Date(2023, 1, 1, 0, 0, 0, 0, time.UTC)
	}
	if opt.Logger == nil {
		opt.Logger = log.NewNopLogger()
	}
	cdc := Codec()
	h := &Harness{Cdc: cdc, DB: dbm.NewMemDB()}
	// same key names as app.NewPocketBaseApp (+ the params keys baseapp mounts itself)
	h.Keys = sdk.NewKVStoreKeys("main", auth.StoreKey, nodesTypes.StoreKey, appsTypes.StoreKey, gov.StoreKey, pocketTypes.StoreKey)
	h.TKeys = sdk.NewTransientStoreKeys(nodesTypes.TStoreKey, appsTypes.TStoreKey, pocketTypes.TStoreKey, gov.TStoreKey)
	ms := store.NewCommitMultiStore(h.DB, false, 5000000)
	names := make([]string, 0, len(h.Keys))
	for n := range h.Keys {
		names = append(names, n)
	}
	sort.Strings(names)
	for _, n := range names {
		ms.MountStoreWithDB(h.Keys[n], sdk.StoreTypeIAVL, h.DB)
	}
	ms.MountStoreWithDB(sdk.ParamsKey, sdk.StoreTypeIAVL, h.DB)
	tnames := make([]string, 0, len(h.TKeys))
	for n := range h.TKeys {
		tnames = append(tnames, n)
	}
	sort.Strings(tnames)
	for _, n := range tnames {
		ms.MountStoreWithDB(h.TKeys[n], sdk.StoreTypeTransient, h.DB)
	}
	ms.MountStoreWithDB(sdk.ParamsTKey, sdk.StoreTypeTransient, h.DB)
	if err := ms.LoadLatestVersion(); err != nil {
		panic(fmt.Errorf("poskeeper: LoadLatestVersion: %w", err))
	}
	h.MS = ms

	ctx := sdk.NewContext(ms, abci.Header{ChainID: "verif-chain", Height: opt.Height, Time: opt.Time}, false, opt.Logger).
		WithAppVersion("0.0.0")
	ctx = ctx.WithConsensusParams(&abci.ConsensusParams{
		Validator: &abci.ValidatorParams{PubKeyTypes: []string{tmtypes.ABCIPubKeyTypeEd25519}},
	})
	h.Ctx = ctx

	// --- wiring, in the order of app.NewPocketCoreApp
	authSubspace := sdk.NewSubspace(auth.DefaultParamspace)
	nodesSubspace := sdk.NewSubspace(nodesTypes.DefaultParamspace)
	appsSubspace := sdk.NewSubspace(appsTypes.DefaultParamspace)
	pocketSubspace := sdk.NewSubspace(pocketTypes.DefaultParamspace)
	h.Auth = auth.NewKeeper(cdc, h.Keys[auth.StoreKey], authSubspace, ModuleAccountPermissions())
	h.Nodes = nodesKeeper.NewKeeper(cdc, h.Keys[nodesTypes.StoreKey], h.Auth, nodesSubspace, nodesTypes.DefaultCodespace)
	h.Apps = appsKeeper.NewKeeper(cdc, h.Keys[appsTypes.StoreKey], h.Nodes, h.Auth, stubPocketKeeper{}, appsSubspace, appsTypes.DefaultCodespace)
	// (the app passes the pocketcore store keys to the gov keeper; gov only uses them for its own subspace name)
	h.Gov = govKeeper.NewKeeper(cdc, h.Keys[pocketTypes.StoreKey], h.TKeys[pocketTypes.TStoreKey], govTypes.DefaultCodespace,
		h.Auth, authSubspace, nodesSubspace, appsSubspace, pocketSubspace)
	h.Nodes.PocketKeeper = stubPocketKeeper{}
	h.Apps.PocketKeeper = stubPocketKeeper{}
	h.Auth.POSKeeper = h.Nodes
	h.Auth.AppKeeper = h.Apps

	// --- genesis-like initialisation at opt.Height
	ap := authTypes.DefaultParams()
	if opt.AuthParams != nil {
		ap = *opt.AuthParams
	}
	auth.InitGenesis(ctx, h.Auth, authTypes.NewGenesisState(ap, nil, nil))
	np := DefaultNodesParams()
	if opt.NodesParams != nil {
		np = *opt.NodesParams
	}
	h.Nodes.SetParams(ctx, np)
	h.Nodes.SetPrevStateValidatorsPower(ctx, sdk.ZeroInt())
	pp := appsTypes.DefaultParams()
	if opt.AppsParams != nil {
		pp = *opt.AppsParams
	}
	h.Apps.SetParams(ctx, pp)
	// touch every module account so that it exists in the store (as after a real genesis)
	macc := make([]string, 0)
	for n := range ModuleAccountPermissions() {
		macc = append(macc, n)
	}
	sort.Strings(macc)
	for _, n := range macc {
		if h.Auth.GetModuleAccount(ctx, n) == nil {
			panic("poskeeper: module account " + n + " could not be created")
		}
	}
	h.DAOOwner = opt.DAOOwner
	if h.DAOOwner == nil {
		_, _, h.DAOOwner = Key(0xDA0)
	}
	gp := govTypes.DefaultParams()
	gp.DAOOwner = h.DAOOwner
	gp.Upgrade = govTypes.NewUpgrade(0, "0.0.0")
	h.Gov.SetParams(ctx, gp)
	acl := govTypes.ACL(make([]govTypes.ACLPair, 0))
	pnames := make([]string, 0)
	for n := range h.Gov.GetAllParamNames(ctx) {
		pnames = append(pnames, n)
	}
	sort.Strings(pnames)
	for _, n := range pnames {
		acl.SetOwner(n, h.DAOOwner)
	}
	gp.ACL = acl
	h.Gov.InitGenesis(ctx, govTypes.NewGenesisState(gp, sdk.ZeroInt()))
	return h
}

// Key derives a deterministic ed25519 key from an integer (never the OS RNG).
func Key(n uint64) (crypto.PrivateKey, crypto.PublicKey, sdk.Address) {
	var b [8]byte
	binary.BigEndian.PutUint64(b[:], n)
	seed := sha256.Sum256(append([]byte("verif-poskeeper-key/"), b[:]...))
	sk := ed25519.NewKeyFromSeed(seed[:])
	priv, err := crypto.NewPrivateKeyBz(sk)
	if err != nil {
		panic(err)
	}
	pub := priv.PublicKey()
	return priv, pub, sdk.Address(pub.Address())
}

// WithHeight returns the harness ctx at another block height (see the package comment on the codec switch).
func (h *Harness) WithHeight(height int64) sdk.Context { return h.Ctx.WithBlockHeight(height) }

// Denom is the stake denomination parameter.
func (h *Harness) Denom() string { return h.Nodes.StakeDenom(h.Ctx) }

// Coins builds a single-denomination coin set.
func (h *Harness) Coins(amt sdk.BigInt) sdk.Coins { return sdk.NewCoins(sdk.NewCoin(h.Denom(), amt)) }

// Fund mints amt out of thin air (supply grows by amt) and moves it to addr, creating the account if needed.
func (h *Harness) Fund(addr sdk.Address, amt sdk.BigInt) {
	if !amt.IsPositive() {
		return
	}
	if err := h.Auth.MintCoins(h.Ctx, nodesTypes.StakedPoolName, h.Coins(amt)); err != nil {
		panic(err)
	}
	if err := h.Auth.SendCoinsFromModuleToAccount(h.Ctx, nodesTypes.StakedPoolName, addr, h.Coins(amt)); err != nil {
		panic(err)
	}
}

// FundModule mints amt (supply grows) into the named module account.
func (h *Harness) FundModule(name string, amt sdk.BigInt) {
	if !amt.IsPositive() {
		return
	}
	if name == nodesTypes.StakedPoolName {
		if err := h.Auth.MintCoins(h.Ctx, name, h.Coins(amt)); err != nil {
			panic(err)
		}
		return
	}
	if err := h.Auth.MintCoins(h.Ctx, nodesTypes.StakedPoolName, h.Coins(amt)); err != nil {
		panic(err)
	}
	if err := h.Auth.SendCoinsFromModuleToModule(h.Ctx, nodesTypes.StakedPoolName, name, h.Coins(amt)); err != nil {
		panic(err)
	}
}

// CreateAccount stores a base account (with its public key) holding amt freshly minted coins.
func (h *Harness) CreateAccount(pub crypto.PublicKey, amt sdk.BigInt) sdk.Address {
	addr := sdk.Address(pub.Address())
	acc := auth.NewBaseAccountWithAddress(addr)
	acc.PubKey = pub
	h.Auth.SetAccount(h.Ctx, &acc)
	h.Fund(addr, amt)
	return addr
}

// ValidatorSpec describes a validator to install directly in state.
type ValidatorSpec struct {
	PubKey           crypto.PublicKey
	Stake            sdk.BigInt
	Output           sdk.Address // nil = custodial
	RewardDelegators map[string]uint32
	Chains           []string // nil = {"0001"}
	ServiceURL       string   // "" = https://node.example:443
	Jailed           bool
	Status           sdk.StakeStatus // 0 value is Unstaked in sdk: use StatusSet to pass it explicitly
	StatusSet        bool            // false = Staked
}

// AddValidator installs a validator the way nodes.InitGenesis does for a genesis validator (record, staking
// set, chain index, signing info) and backs its stake with freshly minted coins in the staked pool, so that
// supply == sum of balances keeps holding. NOTE: the keeper's MarshalValidator drops OutputAddress and
// RewardDelegators while the corresponding features are inactive at the ctx height.
func (h *Harness) AddValidator(s ValidatorSpec) nodesTypes.Validator {
	if s.Chains == nil {
		s.Chains = []string{"0001"}
	}
	if s.ServiceURL == "" {
		s.ServiceURL = "https://node.example:443"
	}
	st := sdk.Staked
	if s.StatusSet {
		st = s.Status
	}
	v := nodesTypes.Validator{
		Address:                 sdk.Address(s.PubKey.Address()),
		PublicKey:               s.PubKey,
		Jailed:                  s.Jailed,
		Status:                  st,
		Chains:                  s.Chains,
		ServiceURL:              s.ServiceURL,
		StakedTokens:            s.Stake,
		UnstakingCompletionTime: time.Time{},
		OutputAddress:           s.Output,
		RewardDelegators:        s.RewardDelegators,
	}
	h.Nodes.SetValidator(h.Ctx, v)
	h.Nodes.SetStakedValidatorByChains(h.Ctx, v)
	if _, found := h.Nodes.GetValidatorSigningInfo(h.Ctx, v.Address); !found {
		h.Nodes.SetValidatorSigningInfo(h.Ctx, v.Address, nodesTypes.ValidatorSigningInfo{
			Address: v.Address, StartHeight: h.Ctx.BlockHeight(), JailedUntil: time.Unix(0, 0),
		})
	}
	if st != sdk.Unstaked {
		h.FundModule(nodesTypes.StakedPoolName, s.Stake)
	}
	return v
}

// Balance reads the stake-denomination balance of an address straight from the account store (zero when absent).
func (h *Harness) Balance(addr sdk.Address) sdk.BigInt {
	acc := h.Auth.GetAccount(h.Ctx, addr)
	if acc == nil {
		return sdk.ZeroInt()
	}
	return acc.GetCoins().AmountOf(h.Denom())
}

// ModuleAddress returns the address of a module account.
func (h *Harness) ModuleAddress(name string) sdk.Address { return h.Auth.GetModuleAddress(name) }

// ModuleBalance reads the balance of a module account.
func (h *Harness) ModuleBalance(name string) sdk.BigInt { return h.Balance(h.ModuleAddress(name)) }

// Supply reads the recorded total supply of the stake denomination.
func (h *Harness) Supply() sdk.BigInt {
	s := h.Auth.GetSupply(h.Ctx)
	if s == nil {
		return sdk.ZeroInt()
	}
	return s.GetTotal().AmountOf(h.Denom())
}

// Balances lists every account in the store: hex address -> balance (stake denomination).
func (h *Harness) Balances() map[string]sdk.BigInt {
	out := map[string]sdk.BigInt{}
	h.Auth.IterateAccounts(h.Ctx, func(a authexported.Account) bool {
		out[a.GetAddress().String()] = a.GetCoins().AmountOf(h.Denom())
		return false
	})
	return out
}

// SumOfBalances recomputes the money in existence from raw account state.
func (h *Harness) SumOfBalances() sdk.BigInt {
	sum := sdk.ZeroInt()
	for _, b := range h.Balances() {
		sum = sum.Add(b)
	}
	return sum
}

// SetNodesParams stores nodes params through the keeper (feature-gated params are skipped while inactive).
func (h *Harness) SetNodesParams(p nodesTypes.Params) { h.Nodes.SetParams(h.Ctx, p) }

// SetAuthParams stores auth params (fee multipliers etc.).
func (h *Harness) SetAuthParams(p authTypes.Params) { h.Auth.SetParams(h.Ctx, p) }

// BeginBlockNodes runs the real nodes BeginBlocker (which pays the block reward to the stored previous
// proposer when height > 1) with the given proposer of the current block and no votes/evidence.
func (h *Harness) BeginBlockNodes(ctx sdk.Context, proposer sdk.Address) {
	nodesKeeper.BeginBlocker(ctx, abci.RequestBeginBlock{Header: abci.Header{
		ChainID: ctx.ChainID(), Height: ctx.BlockHeight(), Time: ctx.BlockHeader().Time, ProposerAddress: proposer,
	}}, h.Nodes)
}
