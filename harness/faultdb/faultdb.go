// Package faultdb is a tm-db DB wrapper for crash-point enumeration.
//
// It counts *write events*: every Batch.Write / Batch.WriteSync and every direct
// Set / SetSync / Delete / DeleteSync is one atomic event (the tm-db contract makes a batch atomic;
// torn batches are not modelled). Arm(k) lets exactly k further events reach the wrapped DB and
// silently drops every later one, which is what the data on disk looks like when the process dies
// right after the k-th write. CloneMem copies the surviving data into a fresh MemDB so that a new
// store can be opened on it, exactly as a restarted process would see the database.
//
// The wrapper contains no oracle and never changes what a read returns.
package faultdb

import (
	"fmt"
	"sync"

	dbm "github.com/tendermint/tm-db"
)

// Event describes one write event seen by the wrapper (passed or dropped).
type Event struct {
	Kind    string   // "batch", "batch-sync", "set", "set-sync", "delete", "delete-sync"
	Keys    [][]byte // keys touched, in order (copied)
	Dropped bool     // the event happened after the crash point and did not reach the DB
}

func (e Event) String() string {
	first := []byte(nil)
	if len(e.Keys) > 0 {
		first = e.Keys[0]
	}
	return fmt.Sprintf("%s(%d ops, first key %q, dropped=%v)", e.Kind, len(e.Keys), first, e.Dropped)
}

// DB wraps another DB.
type DB struct {
	inner dbm.DB

	mu      sync.Mutex
	armed   bool
	budget  int // events still allowed through while armed
	passed  int // events that reached the inner DB (since construction / ResetCount)
	dropped int // events dropped
	log     []Event
	keepLog bool
}

var _ dbm.DB = (*DB)(nil)

// New wraps inner; unarmed, every event passes.
func New(inner dbm.DB) *DB { return &DB{inner: inner, keepLog: true} }

// NewMem wraps a fresh MemDB.
func NewMem() *DB { return New(dbm.NewMemDB()) }

// Inner returns the wrapped DB.
func (d *DB) Inner() dbm.DB { return d.inner }

// Arm lets exactly k further write events through; every later event is dropped.
func (d *DB) Arm(k int) {
	d.mu.Lock()
	d.armed, d.budget = true, k
	d.mu.Unlock()
}

// Disarm lets every later event through again (dropped events stay dropped).
func (d *DB) Disarm() {
	d.mu.Lock()
	d.armed = false
	d.mu.Unlock()
}

// Passed is the number of write events that reached the wrapped DB.
func (d *DB) Passed() int { d.mu.Lock(); defer d.mu.Unlock(); return d.passed }

// Dropped is the number of write events that were discarded.
func (d *DB) Dropped() int { d.mu.Lock(); defer d.mu.Unlock(); return d.dropped }

// Events is Passed()+Dropped(): every write event attempted.
func (d *DB) Events() int { d.mu.Lock(); defer d.mu.Unlock(); return d.passed + d.dropped }

// Log returns a copy of the event log.
func (d *DB) Log() []Event {
	d.mu.Lock()
	defer d.mu.Unlock()
	return append([]Event(nil), d.log...)
}

// ResetLog clears the event log and the counters (the crash point setting is unchanged).
func (d *DB) ResetLog() {
	d.mu.Lock()
	d.log, d.passed, d.dropped = nil, 0, 0
	d.mu.Unlock()
}

// admit decides whether the next event passes and records it.
func (d *DB) admit(kind string, keys [][]byte) bool {
	d.mu.Lock()
	defer d.mu.Unlock()
	ok := true
	if d.armed {
		if d.budget > 0 {
			d.budget--
		} else {
			ok = false
		}
	}
	if ok {
		d.passed++
	} else {
		d.dropped++
	}
	if d.keepLog {
		d.log = append(d.log, Event{Kind: kind, Keys: keys, Dropped: !ok})
	}
	return ok
}

func cp(b []byte) []byte { return append([]byte{}, b...) }

// CloneMem copies the data that reached the wrapped DB into a fresh MemDB.
func (d *DB) CloneMem() *dbm.MemDB {
	out := dbm.NewMemDB()
	it, err := d.inner.Iterator(nil, nil)
	if err != nil {
		panic(err)
	}
	for ; it.Valid(); it.Next() {
		_ = out.Set(cp(it.Key()), cp(it.Value()))
	}
	it.Close()
	return out
}

// ---- reads: passed through unchanged

func (d *DB) Get(key []byte) ([]byte, error) { return d.inner.Get(key) }
func (d *DB) Has(key []byte) (bool, error)   { return d.inner.Has(key) }
func (d *DB) Iterator(start, end []byte) (dbm.Iterator, error) {
	return d.inner.Iterator(start, end)
}
func (d *DB) ReverseIterator(start, end []byte) (dbm.Iterator, error) {
	return d.inner.ReverseIterator(start, end)
}
func (d *DB) Close() error             { return d.inner.Close() }
func (d *DB) Print() error             { return d.inner.Print() }
func (d *DB) Stats() map[string]string { return d.inner.Stats() }

// ---- direct writes: one event each

func (d *DB) Set(key, value []byte) error {
	if !d.admit("set", [][]byte{cp(key)}) {
		return nil
	}
	return d.inner.Set(key, value)
}

func (d *DB) SetSync(key, value []byte) error {
	if !d.admit("set-sync", [][]byte{cp(key)}) {
		return nil
	}
	return d.inner.SetSync(key, value)
}

func (d *DB) Delete(key []byte) error {
	if !d.admit("delete", [][]byte{cp(key)}) {
		return nil
	}
	return d.inner.Delete(key)
}

func (d *DB) DeleteSync(key []byte) error {
	if !d.admit("delete-sync", [][]byte{cp(key)}) {
		return nil
	}
	return d.inner.DeleteSync(key)
}

// ---- batches: the whole batch is one event at Write/WriteSync time

type op struct {
	del  bool
	k, v []byte
}

type batch struct {
	d      *DB
	ops    []op
	closed bool
}

var _ dbm.Batch = (*batch)(nil)

func (d *DB) NewBatch() dbm.Batch { return &batch{d: d} }

func (b *batch) assertOpen() {
	if b.closed {
		panic("faultdb: batch has been written or closed")
	}
}

func (b *batch) Set(key, value []byte) {
	b.assertOpen()
	b.ops = append(b.ops, op{k: cp(key), v: cp(value)})
}

func (b *batch) Delete(key []byte) {
	b.assertOpen()
	b.ops = append(b.ops, op{del: true, k: cp(key)})
}

func (b *batch) write(sync bool) error {
	b.assertOpen()
	keys := make([][]byte, len(b.ops))
	for i, o := range b.ops {
		keys[i] = o.k
	}
	kind := "batch"
	if sync {
		kind = "batch-sync"
	}
	ops := b.ops
	b.Close()
	if !b.d.admit(kind, keys) {
		return nil
	}
	ib := b.d.inner.NewBatch()
	defer ib.Close()
	for _, o := range ops {
		if o.del {
			ib.Delete(o.k)
		} else {
			ib.Set(o.k, o.v)
		}
	}
	if sync {
		return ib.WriteSync()
	}
	return ib.Write()
}

func (b *batch) Write() error     { return b.write(false) }
func (b *batch) WriteSync() error { return b.write(true) }

// Close is idempotent.
func (b *batch) Close() {
	b.closed = true
	b.ops = nil
}
