// Package kv holds the reference model of an ordered key/value store (a Go map plus sorted listing)
// and the generators shared by the store-layer properties.
package kv

import (
	"bytes"
	"fmt"
	"sort"

	"pgregory.net/rapid"
)

// Model is the reference: key -> value (a present key always has a non-nil value).
type Model map[string][]byte

func (m Model) Clone() Model {
	c := make(Model, len(m))
	for k, v := range m {
		c[k] = append([]byte{}, v...)
	}
	return c
}

type Pair struct{ K, V []byte }

func (p Pair) String() string { return fmt.Sprintf("%x=%x", p.K, p.V) }

// InDomain restates the documented iterator domain: start inclusive, end exclusive, nil = unbounded.
func InDomain(k, start, end []byte) bool {
	if start != nil && bytes.Compare(k, start) < 0 {
		return false
	}
	if end != nil && bytes.Compare(k, end) >= 0 {
		return false
	}
	return true
}

// Range lists the model's pairs inside [start,end) ascending, or descending when reverse.
func (m Model) Range(start, end []byte, reverse bool) []Pair {
	keys := make([]string, 0, len(m))
	for k := range m {
		if InDomain([]byte(k), start, end) {
			keys = append(keys, k)
		}
	}
	sort.Strings(keys)
	out := make([]Pair, 0, len(keys))
	for _, k := range keys {
		out = append(out, Pair{[]byte(k), m[k]})
	}
	if reverse {
		for i, j := 0, len(out)-1; i < j; i, j = i+1, j-1 {
			out[i], out[j] = out[j], out[i]
		}
	}
	return out
}

func (m Model) SortedKeys() []string {
	keys := make([]string, 0, len(m))
	for k := range m {
		keys = append(keys, k)
	}
	sort.Strings(keys)
	return keys
}

// Iter is the minimal iterator surface (tm-db Iterator satisfies it).
type Iter interface {
	Valid() bool
	Next()
	Key() []byte
	Value() []byte
	Close()
}

// Drain reads an iterator to the end (bounded: a runaway iterator is reported through the length).
func Drain(it Iter, limit int) []Pair {
	var out []Pair
	for ; it.Valid(); it.Next() {
		out = append(out, Pair{append([]byte{}, it.Key()...), append([]byte{}, it.Value()...)})
		if len(out) > limit {
			break
		}
	}
	it.Close()
	return out
}

func EqualPairs(a, b []Pair) bool {
	if len(a) != len(b) {
		return false
	}
	for i := range a {
		if !bytes.Equal(a[i].K, b[i].K) || !bytes.Equal(a[i].V, b[i].V) {
			return false
		}
	}
	return true
}

func Render(ps []Pair) string {
	s := "["
	for i, p := range ps {
		if i > 0 {
			s += " "
		}
		s += p.String()
	}
	return s + "]"
}

// SmallKey draws keys from a tiny alphabet so that collisions, shadowing and adjacency are frequent.
// Bytes include 0x00 and 0xFF.
func SmallKey() *rapid.Generator[[]byte] {
	return rapid.Custom(func(t *rapid.T) []byte {
		n := rapid.IntRange(1, 3).Draw(t, "klen")
		b := make([]byte, n)
		for i := range b {
			b[i] = rapid.SampledFrom([]byte{'a', 'b', 'c', 'd', 0x00, 0xff}).Draw(t, "kb")
		}
		return b
	})
}

// Value draws short non-nil values, including the empty value.
func Value() *rapid.Generator[[]byte] {
	return rapid.Custom(func(t *rapid.T) []byte {
		n := rapid.IntRange(0, 4).Draw(t, "vlen")
		b := make([]byte, n)
		for i := range b {
			b[i] = rapid.Byte().Draw(t, "vb")
		}
		return b
	})
}

// Bounds draws (start,end) with each possibly nil and start <= end when both are set.
func Bounds(key *rapid.Generator[[]byte]) *rapid.Generator[[2][]byte] {
	return rapid.Custom(func(t *rapid.T) [2][]byte {
		var s, e []byte
		if rapid.IntRange(0, 2).Draw(t, "hasStart") > 0 {
			s = key.Draw(t, "start")
		}
		if rapid.IntRange(0, 2).Draw(t, "hasEnd") > 0 {
			e = key.Draw(t, "end")
		}
		if s != nil && e != nil && bytes.Compare(s, e) > 0 {
			s, e = e, s
		}
		return [2][]byte{s, e}
	})
}
