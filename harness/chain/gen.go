package chain

import (
	"encoding/hex"
	"fmt"
	"sort"
	"time"

	"pgregory.net/rapid"

	"github.com/pokt-network/pocket-core/app"
	"github.com/pokt-network/pocket-core/crypto"
	sdk "github.com/pokt-network/pocket-core/types"
	appsTypes "github.com/pokt-network/pocket-core/x/apps/types"
	govTypes "github.com/pokt-network/pocket-core/x/gov/types"
	nodesTypes "github.com/pokt-network/pocket-core/x/nodes/types"
)

// World is a generated genesis plus the key pools the transaction generators draw from.
// Every key in the pools has a funded account so that it can pay fees.
type World struct {
	Spec     Spec
	Accounts []crypto.PrivateKey // plain funded accounts
	Nodes    []crypto.PrivateKey // operators staked at genesis
	Outputs  []crypto.PrivateKey // Outputs[i] is the output key of Nodes[i] (may equal the operator)
	Apps     []crypto.PrivateKey // applications staked at genesis
	Spare    []crypto.PrivateKey // funded keys that are neither node nor app at genesis (may stake later)
	Fresh    []crypto.PrivateKey // keys without any account at genesis (new recipients, strangers)
	// Multi is a funded multisig-owned account and its member keys (in key order)
	Multi        crypto.PublicKeyMultiSignature
	MultiMembers []crypto.PrivateKey
	Victim       int // index (mod candidates) of the operator that is absent most often
	// OddRecipients: about a quarter of the worlds have users who occasionally send to a recipient that is not 20 bytes
	// (rapid's IntRange is heavily biased to the range ends, so the rate is fixed per world rather than per send)
	OddRecipients bool
	// GovUpgrades (opt-in, set by a check before generating histories): FEATURE upgrade transactions are part of the
	// generated mix. They re-list features that are already scheduled (same height: no behaviour change, but the stored list is
	// merged and de-duplicated) and schedule feature keys no code path consults, so oracles that model behaviour are unaffected.
	GovUpgrades bool
	// JailedAtGenesis: index of the node that the genesis file lists as jailed (0 = none; node0 is never jailed)
	JailedAtGenesis int
	entropy         int64
}

// Chains used by generated nodes/apps (all supported by the default pocketcore params).
var Chains = []string{"0001", "0021"}

// StakeUnit is the stake-weight bin of the default parameters.
const StakeUnit = int64(15_000_000_000)

// GenWorld draws a small world: 2-5 accounts, 2-6 nodes, 1-3 apps, spare and fresh keys.
func GenWorld(rt *rapid.T) *World {
	w := &World{Spec: DefaultSpec()}
	s := &w.Spec
	na := rapid.IntRange(2, 5).Draw(rt, "nAccounts")
	nn := rapid.IntRange(2, 6).Draw(rt, "nNodes")
	np := rapid.IntRange(1, 3).Draw(rt, "nApps")
	fund := func(k crypto.PrivateKey, bal int64) {
		s.Accounts = append(s.Accounts, AccountSpec{Key: k, Balance: bal})
	}
	for i := 0; i < na; i++ {
		k := Key(fmt.Sprintf("acc%d", i))
		w.Accounts = append(w.Accounts, k)
		if i == 0 && rapid.IntRange(0, 4).Draw(rt, "duplicateGenesisEntry") == 0 {
			// a genesis file may list an address twice (ValidateGenesis accepts it): the later entry wins in state and the
			// derived supply must count it once
			fund(k, 777_000_000)
		}
		fund(k, rapid.SampledFrom([]int64{20_000, 1_000_000, 50_000_000, 40_000_000_000}).Draw(rt, "bal"))
	}
	for i := 0; i < nn; i++ {
		k := Key(fmt.Sprintf("node%d", i))
		out := k
		if rapid.Bool().Draw(rt, "separateOutput") {
			out = Key(fmt.Sprintf("out%d", i))
			fund(out, 20_000_000_000)
		}
		fund(k, 20_000_000_000)
		w.Nodes = append(w.Nodes, k)
		w.Outputs = append(w.Outputs, out)
		stake := StakeUnit*int64(rapid.IntRange(1, 4).Draw(rt, "stakeBins")) + int64(rapid.IntRange(0, 2).Draw(rt, "stakeExtra"))*1_000_000
		nchains := rapid.IntRange(1, 2).Draw(rt, "nChains")
		ns := NodeSpec{Key: k, Output: out, Stake: stake, Chains: append([]string{}, Chains[:nchains]...)}
		// genesis (legacy custodial) record or staked by transaction after the activations (non-custodial record)
		ns.ViaTx = !out.PublicKey().Equals(k.PublicKey()) || rapid.Bool().Draw(rt, "viaTx")
		if ns.ViaTx && rapid.IntRange(0, 2).Draw(rt, "hasDelegators") == 0 {
			ns.Delegators = map[string]uint32{}
			nd := rapid.IntRange(1, 3).Draw(rt, "nDelegators")
			for d := 0; d < nd; d++ {
				ns.Delegators[Addr(Key(fmt.Sprintf("deleg%d-%d", i, d))).String()] = uint32(rapid.IntRange(1, 30).Draw(rt, "share"))
			}
		}
		s.Nodes = append(s.Nodes, ns)
	}
	for i := 0; i < np; i++ {
		k := Key(fmt.Sprintf("app%d", i))
		fund(k, 5_000_000_000)
		w.Apps = append(w.Apps, k)
		nchains := rapid.IntRange(1, 2).Draw(rt, "appChains")
		s.Apps = append(s.Apps, AppSpec{Key: k, Stake: int64(rapid.IntRange(2, 50).Draw(rt, "appStake")) * 1_000_000, Chains: append([]string{}, Chains[:nchains]...)})
	}
	for i := 0; i < 3; i++ {
		k := Key(fmt.Sprintf("spare%d", i))
		fund(k, 70_000_000_000)
		w.Spare = append(w.Spare, k)
	}
	for i := 0; i < 3; i++ {
		w.Fresh = append(w.Fresh, Key(fmt.Sprintf("fresh%d", i)))
	}
	fund(s.DAOOwner, 1_000_000_000)
	nm := rapid.IntRange(2, 3).Draw(rt, "multisigMembers")
	for i := 0; i < nm; i++ {
		w.MultiMembers = append(w.MultiMembers, Key(fmt.Sprintf("multi-member%d", i)))
	}
	w.Multi = MultiKey(w.MultiMembers)
	s.Accounts = append(s.Accounts, AccountSpec{Multi: &w.Multi, Balance: 3_000_000_000})
	w.Victim = rapid.IntRange(0, 8).Draw(rt, "victim")
	s.NodeParams.MaxValidators = int64(rapid.IntRange(2, 5).Draw(rt, "maxValidators"))
	s.NodeParams.SessionBlockFrequency = int64(rapid.IntRange(2, 5).Draw(rt, "blocksPerSession"))
	s.NodeParams.UnstakingTime = time.Duration(rapid.SampledFrom([]int{0, 5, 20, 90}).Draw(rt, "unstakingSecs")) * time.Second
	s.AppParams.UnstakingTime = s.NodeParams.UnstakingTime
	s.AppParams.MaxApplications = int64(rapid.IntRange(np, np+3).Draw(rt, "maxApps"))
	s.NodeParams.DAOAllocation = int64(rapid.IntRange(0, 40).Draw(rt, "daoAlloc"))
	s.NodeParams.ProposerAllocation = int64(rapid.IntRange(0, 40).Draw(rt, "proposerAlloc"))
	if s.NodeParams.DAOAllocation+s.NodeParams.ProposerAllocation == 0 {
		// (0,0) makes the fee split divide by zero in BeginBlock (chain halt): judged by C26, excluded here so
		// that the other properties can explore behind it.
		s.NodeParams.ProposerAllocation = 1
	}
	w.OddRecipients = rapid.Bool().Draw(rt, "oddRecipientWorldA") && rapid.Bool().Draw(rt, "oddRecipientWorldB")
	// in a quarter of the worlds one genesis validator (never node0, which proposes the blocks, and only when two other
	// genesis validators remain) is listed as staked and jailed in the genesis file
	if rapid.Bool().Draw(rt, "jailedAtGenesisA") && rapid.Bool().Draw(rt, "jailedAtGenesisB") {
		var cand []int
		for i, ns := range s.Nodes {
			if !ns.ViaTx {
				cand = append(cand, i)
			}
		}
		if len(cand) >= 3 && cand[len(cand)-1] != 0 {
			s.Nodes[cand[len(cand)-1]].JailedAtGenesis = true
			w.JailedAtGenesis = cand[len(cand)-1]
		}
	}
	return w
}

// Describe renders the world compactly for evidence samples.
func (w *World) Describe() string {
	s := w.Spec
	d := fmt.Sprintf("world{accounts=%d nodes=[", len(w.Accounts))
	for i, n := range s.Nodes {
		sep := ""
		if hex.EncodeToString(Addr(w.Outputs[i])) != hex.EncodeToString(Addr(n.Key)) {
			sep = "+out"
		}
		if n.JailedAtGenesis {
			sep += "+jailed-at-genesis"
		}
		d += fmt.Sprintf("%d%s/%dch/%ddel ", n.Stake/1_000_000, sep, len(n.Chains), len(n.Delegators))
	}
	d += fmt.Sprintf("] apps=%d maxVals=%d bps=%d unstake=%s maxApps=%d dao%%=%d prop%%=%d}", len(s.Apps), s.NodeParams.MaxValidators,
		s.NodeParams.SessionBlockFrequency, s.NodeParams.UnstakingTime, s.AppParams.MaxApplications, s.NodeParams.DAOAllocation, s.NodeParams.ProposerAllocation)
	return d
}

// NextEntropy returns a fresh entropy value (unique per world) so that generated txs are distinct.
func (w *World) NextEntropy() int64 { w.entropy++; return w.entropy }

// AllKeys returns every key with a funded account.
func (w *World) AllFunded() []crypto.PrivateKey {
	var ks []crypto.PrivateKey
	ks = append(ks, w.Accounts...)
	ks = append(ks, w.Nodes...)
	for i, o := range w.Outputs {
		if !o.PublicKey().Equals(w.Nodes[i].PublicKey()) {
			ks = append(ks, o)
		}
	}
	ks = append(ks, w.Apps...)
	ks = append(ks, w.Spare...)
	ks = append(ks, w.Spec.DAOOwner)
	return ks
}

// KeyName gives a short label for a key of the world (for rendering).
func (w *World) KeyName(k crypto.PrivateKey) string {
	a := Addr(k).String()
	find := func(pool []crypto.PrivateKey, name string) string {
		for i, p := range pool {
			if Addr(p).String() == a {
				return fmt.Sprintf("%s%d", name, i)
			}
		}
		return ""
	}
	for _, p := range []struct {
		pool []crypto.PrivateKey
		name string
	}{{w.Accounts, "acc"}, {w.Nodes, "node"}, {w.Outputs, "out"}, {w.Apps, "app"}, {w.Spare, "spare"}, {w.Fresh, "fresh"}} {
		if s := find(p.pool, p.name); s != "" {
			return s
		}
	}
	if a == Addr(w.Spec.DAOOwner).String() {
		return "dao"
	}
	return a[:8]
}

// GenTx is one generated transaction with a description.
type GenTx struct {
	Desc   string
	Kind   string
	Bytes  []byte
	Msg    sdk.ProtoMsg
	Signer crypto.PrivateKey
}

func drawKey(rt *rapid.T, label string, pool []crypto.PrivateKey) crypto.PrivateKey {
	return pool[rapid.IntRange(0, len(pool)-1).Draw(rt, label)]
}

func (w *World) sign(msg sdk.ProtoMsg, signer crypto.PrivateKey, kind, desc string) GenTx {
	e := w.NextEntropy()
	return GenTx{Desc: fmt.Sprintf("%s by %s e=%d", desc, w.KeyName(signer), e), Kind: kind, Msg: msg, Signer: signer,
		Bytes: SignTx(w.Spec.ChainID, msg, DefaultFee, "", e, signer)}
}

// GenSend: a send between pool keys with amounts around interesting sizes.
func (w *World) GenSend(rt *rapid.T) GenTx {
	from := drawKey(rt, "from", w.AllFunded())
	var to crypto.PrivateKey
	if rapid.IntRange(0, 3).Draw(rt, "toFresh") == 0 {
		to = drawKey(rt, "toF", w.Fresh)
	} else {
		to = drawKey(rt, "to", w.AllFunded())
	}
	amt := rapid.SampledFrom([]int64{1, 999, 10_000, 1_000_000, 49_990_000, 50_000_000, 20_000_000_000, 90_000_000_000}).Draw(rt, "amt")
	msg := &nodesTypes.MsgSend{FromAddress: Addr(from), ToAddress: Addr(to), Amount: sdk.NewInt(amt)}
	toName := w.KeyName(to)
	if w.OddRecipients && rapid.IntRange(0, 9).Draw(rt, "oddRecipient") == 0 {
		// nothing in the encoding or in ValidateBasic restricts a recipient to 20 bytes (e.g. a pasted 32-byte public key)
		msg.ToAddress = OddAddress(rapid.IntRange(0, 3).Draw(rt, "oddWhich"))
		toName = fmt.Sprintf("odd(%d bytes)", len(msg.ToAddress))
	}
	return w.sign(msg, from, "send", fmt.Sprintf("send %d %s->%s", amt, w.KeyName(from), toName))
}

// nodeCandidates are keys that are or may become node operators.
func (w *World) nodeCandidates() []crypto.PrivateKey {
	return append(append([]crypto.PrivateKey{}, w.Nodes...), w.Spare...)
}

func (w *World) outputOf(op crypto.PrivateKey) crypto.PrivateKey {
	for i, n := range w.Nodes {
		if n.PublicKey().Equals(op.PublicKey()) {
			return w.Outputs[i]
		}
	}
	return op
}

// GenNodeStake: stake or edit-stake of a node candidate (amount in bins), signed by operator or output.
func (w *World) GenNodeStake(rt *rapid.T) GenTx {
	op := drawKey(rt, "op", w.nodeCandidates())
	out := w.outputOf(op)
	if rapid.IntRange(0, 5).Draw(rt, "newOutput") == 0 {
		out = drawKey(rt, "outk", w.AllFunded())
	}
	amt := StakeUnit*int64(rapid.IntRange(0, 5).Draw(rt, "bins")) + rapid.SampledFrom([]int64{0, 0, 1, 1_000_000, 14_999_000_000}).Draw(rt, "extra")
	if amt == 0 {
		amt = 1_000_000
	}
	nchains := rapid.IntRange(1, 2).Draw(rt, "nChains")
	msg := &nodesTypes.MsgStake{PublicKey: op.PublicKey(), Chains: append([]string{}, Chains[:nchains]...), Value: sdk.NewInt(amt),
		ServiceUrl: "https://node.example:443", Output: Addr(out)}
	if rapid.IntRange(0, 4).Draw(rt, "delegs") == 0 {
		msg.RewardDelegators = map[string]uint32{Addr(drawKey(rt, "dk", w.Accounts)).String(): uint32(rapid.IntRange(1, 60).Draw(rt, "share"))}
	}
	signer := op
	if rapid.IntRange(0, 2).Draw(rt, "signByOutput") == 0 {
		signer = w.outputOf(op)
	}
	return w.sign(msg, signer, "nodeStake", fmt.Sprintf("nodeStake %s amt=%d chains=%d out=%s deleg=%d", w.KeyName(op), amt, nchains, w.KeyName(out), len(msg.RewardDelegators)))
}

func (w *World) GenNodeUnstake(rt *rapid.T) GenTx {
	op := drawKey(rt, "op", w.nodeCandidates())
	signer := op
	if rapid.IntRange(0, 2).Draw(rt, "signByOutput") == 0 {
		signer = w.outputOf(op)
	}
	msg := &nodesTypes.MsgBeginUnstake{Address: Addr(op), Signer: Addr(signer)}
	return w.sign(msg, signer, "nodeUnstake", fmt.Sprintf("nodeUnstake %s", w.KeyName(op)))
}

func (w *World) GenNodeUnjail(rt *rapid.T) GenTx {
	op := drawKey(rt, "op", w.nodeCandidates())
	signer := op
	if rapid.IntRange(0, 2).Draw(rt, "signByOutput") == 0 {
		signer = w.outputOf(op)
	}
	msg := &nodesTypes.MsgUnjail{ValidatorAddr: Addr(op), Signer: Addr(signer)}
	return w.sign(msg, signer, "nodeUnjail", fmt.Sprintf("nodeUnjail %s", w.KeyName(op)))
}

func (w *World) appCandidates() []crypto.PrivateKey {
	return append(append([]crypto.PrivateKey{}, w.Apps...), w.Spare...)
}

// GenAppStake: stake / edit-stake of an app candidate.
func (w *World) GenAppStake(rt *rapid.T) GenTx {
	k := drawKey(rt, "app", w.appCandidates())
	amt := rapid.SampledFrom([]int64{999_999, 1_000_000, 2_000_000, 60_000_000, 6_000_000_000}).Draw(rt, "amt")
	nchains := rapid.IntRange(1, 2).Draw(rt, "nChains")
	msg := &appsTypes.MsgStake{PubKey: k.PublicKey(), Chains: append([]string{}, Chains[:nchains]...), Value: sdk.NewInt(amt)}
	return w.sign(msg, k, "appStake", fmt.Sprintf("appStake %s amt=%d chains=%d", w.KeyName(k), amt, nchains))
}

// GenAppTransfer: transfer of an app to another key (MsgStake with zero value and no chains, signed by the current app).
func (w *World) GenAppTransfer(rt *rapid.T) GenTx {
	from := drawKey(rt, "from", w.appCandidates())
	to := drawKey(rt, "to", append(append([]crypto.PrivateKey{}, w.Fresh...), w.appCandidates()...))
	msg := &appsTypes.MsgStake{PubKey: to.PublicKey(), Chains: nil, Value: sdk.ZeroInt()}
	return w.sign(msg, from, "appTransfer", fmt.Sprintf("appTransfer %s->%s", w.KeyName(from), w.KeyName(to)))
}

func (w *World) GenAppUnstake(rt *rapid.T) GenTx {
	k := drawKey(rt, "app", w.appCandidates())
	msg := &appsTypes.MsgBeginUnstake{Address: Addr(k)}
	return w.sign(msg, k, "appUnstake", fmt.Sprintf("appUnstake %s", w.KeyName(k)))
}

// ParamChange is one generated parameter change (key + JSON-encodable value).
type ParamChange struct {
	Key string
	Val interface{}
}

// GenParamChange draws a parameter change that keeps the chain within sane bounds.
func GenParamChange(rt *rapid.T) ParamChange {
	choices := []func() ParamChange{
		func() ParamChange { return ParamChange{"pos/MaxValidators", int64(rapid.IntRange(1, 6).Draw(rt, "v"))} },
		func() ParamChange {
			return ParamChange{"pos/DAOAllocation", int64(rapid.IntRange(1, 50).Draw(rt, "v"))}
		},
		func() ParamChange {
			return ParamChange{"pos/ProposerPercentage", int64(rapid.IntRange(1, 50).Draw(rt, "v"))}
		},
		func() ParamChange {
			return ParamChange{"pos/StakeMinimum", rapid.SampledFrom([]int64{1_000_000, 15_000_000_000, 29_000_000_000}).Draw(rt, "v")}
		},
		func() ParamChange {
			return ParamChange{"pos/MaxJailedBlocks", int64(rapid.IntRange(2, 20).Draw(rt, "v"))}
		},
		func() ParamChange {
			return ParamChange{"pos/RelaysToTokensMultiplier", int64(rapid.IntRange(1, 5000).Draw(rt, "v"))}
		},
		func() ParamChange {
			return ParamChange{"application/MaxApplications", int64(rapid.IntRange(1, 6).Draw(rt, "v"))}
		},
		func() ParamChange {
			return ParamChange{"application/BaseRelaysPerPOKT", int64(rapid.IntRange(1, 500).Draw(rt, "v"))}
		},
		func() ParamChange {
			return ParamChange{"auth/MaxMemoCharacters", uint64(rapid.IntRange(10, 100).Draw(rt, "v"))}
		},
		func() ParamChange {
			return ParamChange{"pocketcore/MinimumNumberOfProofs", int64(rapid.IntRange(1, 10).Draw(rt, "v"))}
		},
		func() ParamChange {
			return ParamChange{"pocketcore/ClaimExpiration", int64(rapid.IntRange(2, 6).Draw(rt, "v"))}
		},
	}
	return choices[rapid.IntRange(0, len(choices)-1).Draw(rt, "param")]()
}

func (w *World) GenChangeParam(rt *rapid.T) GenTx {
	pc := GenParamChange(rt)
	signer := w.Spec.DAOOwner
	if rapid.IntRange(0, 4).Draw(rt, "stranger") == 0 {
		signer = drawKey(rt, "sk", w.AllFunded())
	}
	val, err := app.Codec().MarshalJSON(pc.Val)
	if err != nil {
		panic(err)
	}
	msg := &govTypes.MsgChangeParam{FromAddress: Addr(signer), ParamKey: pc.Key, ParamVal: val}
	return w.sign(msg, signer, "changeParam", fmt.Sprintf("changeParam %s=%v", pc.Key, pc.Val))
}

func (w *World) GenDAO(rt *rapid.T) GenTx {
	signer := w.Spec.DAOOwner
	if rapid.IntRange(0, 4).Draw(rt, "stranger") == 0 {
		signer = drawKey(rt, "sk", w.AllFunded())
	}
	action := rapid.SampledFrom([]string{govTypes.DAOTransferString, govTypes.DAOBurnString}).Draw(rt, "action")
	amt := rapid.SampledFrom([]int64{1, 1000, 2_500_000, 5_000_000, 5_000_001}).Draw(rt, "amt")
	msg := &govTypes.MsgDAOTransfer{FromAddress: Addr(signer), Amount: sdk.NewInt(amt), Action: action}
	if action == govTypes.DAOTransferString {
		msg.ToAddress = Addr(drawKey(rt, "to", append(append([]crypto.PrivateKey{}, w.Accounts...), w.Fresh...)))
	}
	return w.sign(msg, signer, "dao", fmt.Sprintf("dao %s %d", action, amt))
}

// GenUpgrade: a FEATURE upgrade by the owner (or, sometimes, a stranger) naming 1-4 features: already scheduled ones at
// their scheduled height, and synthetic keys (ZZA..ZZC) at generated heights, possibly repeating a key within one message
// or across messages (re-scheduling).
func (w *World) GenUpgrade(rt *rapid.T) GenTx {
	signer := w.Spec.DAOOwner
	if rapid.IntRange(0, 4).Draw(rt, "stranger") == 0 {
		signer = drawKey(rt, "sk", w.AllFunded())
	}
	var known []string
	for k := range w.Spec.Features {
		known = append(known, k)
	}
	sort.Strings(known)
	n := rapid.IntRange(1, 4).Draw(rt, "nFeatures")
	var feats []string
	for i := 0; i < n; i++ {
		if len(known) > 0 && rapid.Bool().Draw(rt, "relist") {
			k := known[rapid.IntRange(0, len(known)-1).Draw(rt, "known")]
			feats = append(feats, fmt.Sprintf("%s:%d", k, w.Spec.Features[k]))
		} else {
			feats = append(feats, fmt.Sprintf("%s:%d", rapid.SampledFrom([]string{"ZZA", "ZZB", "ZZC"}).Draw(rt, "synthetic"), rapid.SampledFrom([]int64{4, 9, 20, 60}).Draw(rt, "at")))
		}
	}
	msg := &govTypes.MsgUpgrade{Address: Addr(signer), Upgrade: govTypes.Upgrade{Height: 1, Version: "FEATURE", Features: feats}}
	return w.sign(msg, signer, "upgrade", fmt.Sprintf("upgrade FEATURE %v", feats))
}

// GenAnyTx draws one transaction of any of the state-changing kinds above.
func (w *World) GenAnyTx(rt *rapid.T) GenTx {
	kinds := []string{"send", "send", "nodeStake", "nodeStake", "nodeUnstake", "nodeUnjail", "appStake", "appTransfer", "appUnstake", "changeParam", "dao"}
	if w.GovUpgrades {
		kinds = append(kinds, "upgrade", "upgrade", "upgrade")
	}
	switch rapid.SampledFrom(kinds).Draw(rt, "kind") {
	case "upgrade":
		return w.GenUpgrade(rt)
	case "send":
		return w.GenSend(rt)
	case "nodeStake":
		return w.GenNodeStake(rt)
	case "nodeUnstake":
		return w.GenNodeUnstake(rt)
	case "nodeUnjail":
		return w.GenNodeUnjail(rt)
	case "appStake":
		return w.GenAppStake(rt)
	case "appTransfer":
		return w.GenAppTransfer(rt)
	case "appUnstake":
		return w.GenAppUnstake(rt)
	case "changeParam":
		return w.GenChangeParam(rt)
	default:
		return w.GenDAO(rt)
	}
}

// GenBlock draws one block: time step, absent validators (by index into the sorted previous set is not
// known here, so absence is drawn per genesis/spare operator key), and 0-4 transactions.
func (w *World) GenBlock(rt *rapid.T) (Block, []GenTx) {
	dt := time.Duration(rapid.SampledFrom([]int{0, 1, 1, 5, 15, 40, 100}).Draw(rt, "dtSecs")) * time.Second
	b := Block{DT: dt, Absent: map[string]bool{}}
	// proposer: one of the genesis operators (the fee split of the previous block is paid to it, including
	// its reward delegators)
	b.Proposer = Addr(w.Nodes[rapid.IntRange(0, len(w.Nodes)-1).Draw(rt, "proposer")])
	// absence: one persistent "victim" operator (chosen per world) misses most blocks when absence is on, so
	// that downtime slashing / jailing / max-jailed-blocks are reached; the others miss occasionally.
	if rapid.IntRange(0, 1).Draw(rt, "anyAbsent") == 0 {
		cands := w.nodeCandidates()
		for i, k := range cands {
			p := 5
			if i == w.Victim%len(w.Nodes) {
				p = 1
			}
			if rapid.IntRange(0, p).Draw(rt, "absent") == 0 {
				b.Absent[hex.EncodeToString(Addr(k))] = true
			}
		}
	}
	ntx := rapid.IntRange(0, 4).Draw(rt, "nTxs")
	var txs []GenTx
	for i := 0; i < ntx; i++ {
		t := w.GenAnyTx(rt)
		txs = append(txs, t)
		b.Txs = append(b.Txs, t.Bytes)
	}
	return b, txs
}

// DescribeBlock renders a generated block.
func DescribeBlock(b Block, txs []GenTx) string {
	s := fmt.Sprintf("block{dt=%s absent=%d", b.DT, len(b.Absent))
	for _, t := range txs {
		s += " | " + t.Desc
	}
	return s + "}"
}

// History is a generated block sequence (inputs only; generated before any node runs so that several nodes can
// execute exactly the same inputs).
type History struct {
	Blocks []Block
	Txs    [][]GenTx
}

// GenHistory draws between min and max blocks.
func (w *World) GenHistory(rt *rapid.T, min, max int) *History {
	h := &History{}
	nb := rapid.IntRange(min, max).Draw(rt, "nBlocks")
	for i := 0; i < nb; i++ {
		b, txs := w.GenBlock(rt)
		h.Blocks = append(h.Blocks, b)
		h.Txs = append(h.Txs, txs)
	}
	return h
}

// Describe renders the history, one entry per block.
func (h *History) Describe() []string {
	out := make([]string, len(h.Blocks))
	for i := range h.Blocks {
		out[i] = DescribeBlock(h.Blocks[i], h.Txs[i])
	}
	return out
}

// Run executes the history on a node and returns the transcript.
func (h *History) Run(n *Node) []BlockResult {
	out := make([]BlockResult, 0, len(h.Blocks))
	for _, b := range h.Blocks {
		out = append(out, n.RunBlock(b))
	}
	return out
}

// KeyNameAddr labels an address of the world (or its hex prefix).
func (w *World) KeyNameAddr(a sdk.Address) string {
	for _, pool := range [][]crypto.PrivateKey{w.Accounts, w.Nodes, w.Outputs, w.Apps, w.Spare, w.Fresh, {w.Spec.DAOOwner}} {
		for _, k := range pool {
			if Addr(k).Equals(a) {
				return w.KeyName(k)
			}
		}
	}
	if MultiAddr(w.Multi).Equals(a) {
		return "multi"
	}
	s := a.String()
	if len(s) > 8 {
		s = s[:8]
	}
	return s
}

// OddAddress returns one of a few deterministic recipient addresses whose length is not 20 bytes.
func OddAddress(i int) sdk.Address {
	k := Key(fmt.Sprintf("odd-address-%d", i)).PublicKey().RawBytes()
	switch i % 4 {
	case 0:
		return sdk.Address(k) // 32 bytes
	case 1:
		return sdk.Address(k[:5])
	case 2:
		return sdk.Address(append(append([]byte{}, k...), k[:8]...)) // 40 bytes
	default:
		return sdk.Address(k[:21])
	}
}
