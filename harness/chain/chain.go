// Package chain is the chain simulator shared by the application-level properties: it drives the REAL
// pocket-core application (app.NewPocketCoreApp over a tm-db MemDB, real Tendermint BlockStore, real
// transaction indexer) by playing Tendermint's part: InitChain, then per block SaveBlock + BeginBlock /
// DeliverTx* / EndBlock / Commit, then indexing the tx results. It contains no oracle.
package chain

import (
	"bytes"
	"crypto/ed25519"
	"crypto/sha256"
	"encoding/binary"
	"encoding/hex"
	"encoding/json"
	"fmt"
	"github.com/tendermint/tendermint/state/txindex"
	"math"
	"sort"
	"sync"
	"time"

	abci "github.com/tendermint/tendermint/abci/types"
	"github.com/tendermint/tendermint/libs/log"
	"github.com/tendermint/tendermint/rpc/client"
	ctypes "github.com/tendermint/tendermint/rpc/core/types"
	tmStore "github.com/tendermint/tendermint/store"
	tmtypes "github.com/tendermint/tendermint/types"
	dbm "github.com/tendermint/tm-db"

	"github.com/pokt-network/pocket-core/app"
	bam "github.com/pokt-network/pocket-core/baseapp"
	"github.com/pokt-network/pocket-core/codec"
	codecTypes "github.com/pokt-network/pocket-core/codec/types"
	"github.com/pokt-network/pocket-core/crypto"
	"github.com/pokt-network/pocket-core/crypto/keys"
	"github.com/pokt-network/pocket-core/store"
	sdk "github.com/pokt-network/pocket-core/types"
	appsTypes "github.com/pokt-network/pocket-core/x/apps/types"
	"github.com/pokt-network/pocket-core/x/auth"
	authTypes "github.com/pokt-network/pocket-core/x/auth/types"
	govTypes "github.com/pokt-network/pocket-core/x/gov/types"
	nodesTypes "github.com/pokt-network/pocket-core/x/nodes/types"
	pocketTypes "github.com/pokt-network/pocket-core/x/pocketcore/types"
)

// ---------------------------------------------------------------------------------------------
// deterministic keys

// Key derives an ed25519 private key from a label (never the OS RNG).
func Key(label string) crypto.PrivateKey {
	seed := sha256.Sum256([]byte("verif-key:" + label))
	priv := ed25519.NewKeyFromSeed(seed[:])
	var k crypto.Ed25519PrivateKey
	copy(k[:], priv)
	return k
}

// Addr is the address of a key.
func Addr(k crypto.PrivateKey) sdk.Address { return sdk.Address(k.PublicKey().Address()) }

// ---------------------------------------------------------------------------------------------
// genesis specification

type AccountSpec struct {
	Key     crypto.PrivateKey
	Balance int64
	// Multi, when non-nil, makes this a multisig-owned account (Key is ignored): address and stored public key
	// are those of the multisig key.
	Multi *crypto.PublicKeyMultiSignature
	// Extra: coins of other denominations the genesis file gives this account (nil = none)
	Extra sdk.Coins
}

type NodeSpec struct {
	Key crypto.PrivateKey
	// ViaTx: the node is not part of the genesis file; its operator stakes with a MsgStake in the setup block that
	// follows the warm-up (non-custodial record with output address and reward delegators). Genesis validators are
	// stored in the legacy custodial form (genesis lies before the NCUST activation): Output and Delegators of a
	// non-ViaTx node never reach state.
	ViaTx      bool
	Output     crypto.PrivateKey // nil = the operator itself (ViaTx) / none (genesis, custodial)
	Stake      int64
	Chains     []string
	URL        string
	Delegators map[string]uint32
	// JailedAtGenesis (genesis nodes only): the genesis file lists the validator as staked AND jailed (what an export of
	// a chain with a jailed node contains); its stake belongs to the staking pool, it is outside the validator set, and it
	// may unjail at once (no signing info in the genesis file: JailedUntil is the zero time)
	JailedAtGenesis bool
}

type AppSpec struct {
	Key    crypto.PrivateKey
	Stake  int64
	Chains []string
}

// Spec is everything needed to build a genesis and a node. All fields are plain data so a Spec can be
// built by a rapid generator and re-used for several nodes (differential runs).
type Spec struct {
	ChainID      string
	GenesisTime  time.Time
	Accounts     []AccountSpec
	Nodes        []NodeSpec
	Apps         []AppSpec
	NodeParams   nodesTypes.Params
	AppParams    appsTypes.Params
	PocketParams pocketTypes.Params
	AuthParams   auth.Params
	DAOOwner     crypto.PrivateKey
	ACLOwners    map[string]crypto.PrivateKey // per-parameter owners; default DAOOwner
	DAOTokens    int64
	// feature configuration (process globals of package codec)
	TestMode         int64
	UpgradeHeight    int64
	OldUpgradeHeight int64
	Features         map[string]int64
	GovUpgrade       govTypes.Upgrade // what the gov genesis carries
	// store configuration
	Cache bool
	// number of empty blocks NewNode runs after InitChain (to get past the activation heights)
	Warmup int
}

// AllNamedFeatures lists the feature keys that are gated by name in the feature map.
var AllNamedFeatures = []string{
	codec.UpgradeCodecUpdateKey, codec.ValidatorSplitUpdateKey, codec.NonCustodialUpdateKey, codec.EnforceMaxChainsUpdateKey,
	codec.TxCacheEnhancementKey, codec.MaxRelayProtKey, codec.ReplayBurnKey, codec.BlockSizeModifyKey, codec.RSCALKey,
	codec.VEDITKey, codec.OutputAddressEditKey, codec.ClearUnjailedValSessionKey, codec.PerChainRTTM, codec.AppTransferKey,
	codec.RewardDelegatorsKey,
}

// DefaultSpec returns a small, fully-featured (current main-net semantics) configuration:
// proto codec, validator split, non-custodial and every named feature active from height 1.
func DefaultSpec() Spec {
	np := nodesTypes.DefaultParams()
	np.SessionBlockFrequency = 4
	np.UnstakingTime = 20 * time.Second
	np.SignedBlocksWindow = 10
	np.MinSignedPerWindow = sdk.NewDecWithPrec(6, 1)
	np.DowntimeJailDuration = 60 * time.Second
	np.MaxValidators = 5
	np.MaxJailedBlocks = 12
	np.MaxEvidenceAge = 30 * time.Minute
	np.ServicerStakeFloorMultiplier = nodesTypes.DefaultServicerStakeFloorMultiplier
	np.ServicerStakeWeightCeiling = nodesTypes.DefaultServicerStakeWeightCeiling
	np.ServicerStakeWeightMultiplier = nodesTypes.DefaultServicerStakeWeightMultiplier
	np.ServicerStakeFloorMultiplierExponent = nodesTypes.DefaultServicerStakeFloorMultiplierExponent
	ap := appsTypes.DefaultParams()
	ap.UnstakingTime = 20 * time.Second
	pp := pocketTypes.DefaultParams()
	pp.SessionNodeCount = 1
	pp.ClaimSubmissionWindow = 2
	pp.ClaimExpiration = 3
	pp.MinimumNumberOfProofs = 5
	pp.SupportedBlockchains = []string{"0001", "0021"}
	// Production-like gating (no test mode): amino until the codec upgrade at height 2, validator split and
	// every named feature from height 3. NewNode runs Warmup empty blocks so generated histories start at
	// height 4 with everything active. (Test mode / UpgradeHeight=-1 would make the tx indexer unusable:
	// it encodes results "at height 0", which must be before the codec upgrade as on main-net.)
	feats := map[string]int64{}
	var featList []string
	for _, k := range AllNamedFeatures {
		feats[k] = 3
		featList = append(featList, fmt.Sprintf("%s:%d", k, 3))
	}
	sort.Strings(featList)
	return Spec{
		ChainID:          "verif-chain",
		GenesisTime:      time.Date(2024, 1, 1, 0, 0, 0, 0, time.UTC),
		NodeParams:       np,
		AppParams:        ap,
		PocketParams:     pp,
		AuthParams:       authTypes.DefaultParams(),
		DAOOwner:         Key("dao-owner"),
		DAOTokens:        5_000_000,
		TestMode:         0,
		UpgradeHeight:    3,
		OldUpgradeHeight: 2,
		Features:         feats,
		GovUpgrade:       govTypes.Upgrade{Height: 3, OldUpgradeHeight: 2, Version: "0.12.0", Features: featList},
		Warmup:           3,
	}
}

// FaucetKey funds multisig-owned accounts right after the warm-up blocks; it ends with a zero balance.
var FaucetKey = Key("faucet")

// ResetGlobals puts every process-global the application mutates back to a known state and applies
// the feature configuration of spec. Must be called before each node is created.
func ResetGlobals(spec *Spec) {
	initConfigOnce()
	codec.TestMode = spec.TestMode
	codec.UpgradeHeight = spec.UpgradeHeight
	codec.OldUpgradeHeight = spec.OldUpgradeHeight
	m := make(map[string]int64, len(spec.Features))
	for k, v := range spec.Features {
		m[k] = v
	}
	codec.UpgradeFeatureMap = m
	sdk.InitCtxCache(20)
	sdk.VbCCache = sdk.NewCache(1200)
	pocketTypes.CleanPocketNodes()
	pocketTypes.GlobalPocketNodes = map[string]*pocketTypes.PocketNode{}
	pocketTypes.GlobalSessionCache = nil
	pocketTypes.GlobalEvidenceCache = nil
	app.GenState = nil
	app.Codec().DisableUpgradeOverride()
}

var cfgOnce sync.Once

func initConfigOnce() {
	cfgOnce.Do(func() {
		c := sdk.DefaultTestingPocketConfig()
		c.PocketConfig.ABCILogging = false
		app.GlobalConfig = c
		pocketTypes.InitConfig(&pocketTypes.HostedBlockchains{M: map[string]pocketTypes.HostedBlockchain{}}, log.NewNopLogger(), c)
	})
}

// BuildGenesis renders the spec into the application's genesis state.
func BuildGenesis(spec *Spec) app.GenesisState {
	cdc := app.Codec()
	gs := app.GenesisState{}
	// auth
	authGen := authTypes.GenesisState{Params: spec.AuthParams}
	faucet := int64(0)
	extra := map[string]int64{} // stake + fee of operators that stake by transaction
	for _, n := range spec.Nodes {
		if n.ViaTx {
			extra[Addr(n.Key).String()] += n.Stake + DefaultFee
		}
	}
	seen := map[string]bool{}
	for _, a := range spec.Accounts {
		if a.Multi == nil {
			seen[Addr(a.Key).String()] = true
		}
	}
	for _, n := range spec.Nodes {
		if n.ViaTx && !seen[Addr(n.Key).String()] {
			seen[Addr(n.Key).String()] = true
			authGen.Accounts = append(authGen.Accounts, &auth.BaseAccount{Address: Addr(n.Key), Coins: sdk.NewCoins(sdk.NewCoin(sdk.DefaultStakeDenom, sdk.NewInt(extra[Addr(n.Key).String()]))), PubKey: n.Key.PublicKey()})
			delete(extra, Addr(n.Key).String())
		}
	}
	for _, a := range spec.Accounts {
		// genesis validation requires a public key on every genesis account
		var ba *auth.BaseAccount
		if a.Multi != nil {
			// genesis validation rejects multisig-owned accounts (PubKey() of a multisig key is nil): they are funded
			// by a send from the faucet account in an extra block after the warm-up (see NewNodeOnDB)
			faucet += a.Balance + DefaultFee
			continue
		}
		ba = &auth.BaseAccount{Address: Addr(a.Key), Coins: sdk.NewCoins(sdk.NewCoin(sdk.DefaultStakeDenom, sdk.NewInt(a.Balance+extra[Addr(a.Key).String()]))).Add(a.Extra), PubKey: a.Key.PublicKey()}
		delete(extra, Addr(a.Key).String())
		authGen.Accounts = append(authGen.Accounts, ba)
	}
	if faucet > 0 {
		authGen.Accounts = append(authGen.Accounts, &auth.BaseAccount{Address: Addr(FaucetKey), Coins: sdk.NewCoins(sdk.NewCoin(sdk.DefaultStakeDenom, sdk.NewInt(faucet))), PubKey: FaucetKey.PublicKey()})
	}
	gs[auth.ModuleName] = cdc.MustMarshalJSON(authGen)
	// nodes
	ng := nodesTypes.DefaultGenesisState()
	ng.Params = spec.NodeParams
	for _, n := range spec.Nodes {
		if n.ViaTx {
			continue
		}
		v := nodesTypes.Validator{
			Address: Addr(n.Key), PublicKey: n.Key.PublicKey(), Status: sdk.Staked, Chains: n.Chains,
			ServiceURL: n.URL, StakedTokens: sdk.NewInt(n.Stake), RewardDelegators: n.Delegators,
		}
		if v.ServiceURL == "" {
			v.ServiceURL = "https://node.example:443"
		}
		if n.Output != nil {
			v.OutputAddress = Addr(n.Output)
		}
		v.Jailed = n.JailedAtGenesis
		ng.Validators = append(ng.Validators, v)
	}
	gs[nodesTypes.ModuleName] = cdc.MustMarshalJSON(ng)
	// apps
	ag := appsTypes.DefaultGenesisState()
	ag.Params = spec.AppParams
	for _, a := range spec.Apps {
		ag.Applications = append(ag.Applications, appsTypes.Application{
			Address: Addr(a.Key), PublicKey: a.Key.PublicKey(), Status: sdk.Staked, Chains: a.Chains,
			StakedTokens: sdk.NewInt(a.Stake), MaxRelays: sdk.NewInt(0),
		})
	}
	gs[appsTypes.ModuleName] = cdc.MustMarshalJSON(ag)
	// pocketcore
	pg := pocketTypes.DefaultGenesisState()
	pg.Params = spec.PocketParams
	gs[pocketTypes.ModuleName] = cdc.MustMarshalJSON(pg)
	// gov
	gg := govTypes.DefaultGenesisState()
	acl := govTypes.ACL(make([]govTypes.ACLPair, 0))
	for _, k := range ACLKeys {
		owner := spec.DAOOwner
		if o, ok := spec.ACLOwners[k]; ok {
			owner = o
		}
		acl.SetOwner(k, Addr(owner))
	}
	gg.Params.ACL = acl
	gg.Params.DAOOwner = Addr(spec.DAOOwner)
	gg.Params.Upgrade = spec.GovUpgrade
	gg.DAOTokens = sdk.NewInt(spec.DAOTokens)
	gs[govTypes.ModuleName] = cdc.MustMarshalJSON(gg)
	return gs
}

// DefaultFee is the required fee of every message type.
const DefaultFee = int64(10000)

// ACLKeys are the parameter keys owned in the generated ACL (the set createDummyACL uses in the repo,
// i.e. every parameter that exists at genesis).
var ACLKeys = []string{
	"application/ApplicationStakeMinimum", "application/AppUnstakingTime", "application/BaseRelaysPerPOKT",
	"application/MaxApplications", "application/MaximumChains", "application/ParticipationRateOn",
	"application/StabilityAdjustment", "auth/MaxMemoCharacters", "auth/TxSigLimit", "gov/acl", "gov/daoOwner",
	"gov/upgrade", "pocketcore/ClaimExpiration", "auth/FeeMultipliers", "pocketcore/ReplayAttackBurnMultiplier",
	"pos/ProposerPercentage", "pocketcore/ClaimSubmissionWindow", "pocketcore/MinimumNumberOfProofs",
	"pocketcore/SessionNodeCount", "pocketcore/SupportedBlockchains", "pos/BlocksPerSession", "pos/DAOAllocation",
	"pos/DowntimeJailDuration", "pos/MaxEvidenceAge", "pos/MaximumChains", "pos/MaxJailedBlocks", "pos/MaxValidators",
	"pos/MinSignedPerWindow", "pos/RelaysToTokensMultiplier", "pos/SignedBlocksWindow", "pos/SlashFractionDoubleSign",
	"pos/SlashFractionDowntime", "pos/StakeDenom", "pos/StakeMinimum", "pos/UnstakingTime",
}

// ---------------------------------------------------------------------------------------------
// stub tendermint client: only ConsensusReactorStatus is ever reached (from the goroutine the
// pocketcore EndBlock spawns); it returns an error so the goroutine exits without touching state.

type stubClient struct{ client.Client }

func (stubClient) ConsensusReactorStatus() (*ctypes.ResultConsensusReactorStatus, error) {
	return nil, fmt.Errorf("verif: no tendermint node")
}

// ---------------------------------------------------------------------------------------------
// node

type valInfo struct {
	Addr  []byte
	Power int64
}

// Node is one simulated full node.
type Node struct {
	Spec       *Spec
	App        *app.PocketCoreApp
	DB         dbm.DB
	BlockDB    dbm.DB
	TxDB       dbm.DB
	BlockStore *tmStore.BlockStore
	Indexer    *sdk.TransactionIndexer
	Height     int64
	Time       time.Time
	lastID     tmtypes.BlockID
	lastCommit *tmtypes.Commit
	// consensus validator sets as Tendermint would hold them: sets[h] validates block h
	sets     map[int64][]valInfo
	Current  map[string]int64 // validator set after applying every update so far (hex addr -> power)
	inBlock  bool
	curTxs   [][]byte
	curRes   []abci.ResponseDeliverTx
	LastInit abci.ResponseInitChain
	Warm     []BlockResult // transcript of the warm-up blocks
}

// Block is the generated input of one block.
type Block struct {
	DT       time.Duration   // block time = previous + DT (DT >= 0)
	Proposer sdk.Address     // nil: first member of the current validator set (or zero address)
	Absent   map[string]bool // hex address -> did NOT sign the previous block
	Evidence []abci.Evidence // byzantine validators
	Txs      [][]byte
}

// TxResult is the consensus-relevant part of a DeliverTx response.
type TxResult struct {
	Code      uint32
	Codespace string
	Data      []byte
	Log       string
}

// BlockResult is the transcript entry of one block.
type BlockResult struct {
	Height     int64
	AppHash    []byte
	Txs        []TxResult
	ValUpdates []abci.ValidatorUpdate
}

func (r BlockResult) String() string {
	s := fmt.Sprintf("h=%d hash=%X", r.Height, r.AppHash)
	for i, t := range r.Txs {
		s += fmt.Sprintf(" tx%d=(%d,%s,%x)", i, t.Code, t.Codespace, t.Data)
	}
	for _, u := range r.ValUpdates {
		s += fmt.Sprintf(" val(%X:%d)", u.PubKey.Data, u.Power)
	}
	return s
}

// NewNode resets the process globals, builds the application over fresh in-memory databases and runs
// InitChain with the genesis built from spec.
func NewNode(spec *Spec) *Node {
	return NewNodeOnDB(spec, dbm.NewMemDB(), dbm.NewMemDB(), dbm.NewMemDB(), true)
}

// NewNodeOnDB builds a node over the given databases. If initChain is false the application is only
// loaded from the database (restart).
func NewNodeOnDB(spec *Spec, db, blockDB, txDB dbm.DB, initChain bool) *Node {
	ResetGlobals(spec)
	gs := BuildGenesis(spec)
	app.GenState = gs
	n := &Node{Spec: spec, DB: db, BlockDB: blockDB, TxDB: txDB, sets: map[int64][]valInfo{}, Current: map[string]int64{}}
	n.App = app.NewPocketCoreApp(gs, keys.NewInMemory(), stubClient{}, &pocketTypes.HostedBlockchains{M: map[string]pocketTypes.HostedBlockchain{}},
		log.NewNopLogger(), db, spec.Cache, 5000000, bam.SetPruning(store.PruneNothing))
	// NewPocketCoreApp may have restored feature globals from state; the harness configuration wins for a
	// fresh chain (state is empty then), and equals it for a restart.
	n.BlockStore = tmStore.NewBlockStore(blockDB)
	n.Indexer = sdk.NewTransactionIndexer(txDB)
	n.App.SetBlockstore(n.BlockStore)
	n.App.SetTxIndexer(n.Indexer)
	n.Time = spec.GenesisTime
	if initChain {
		n.LastInit = n.App.InitChain(abci.RequestInitChain{ChainId: spec.ChainID, Time: spec.GenesisTime,
			ConsensusParams: &abci.ConsensusParams{Block: &abci.BlockParams{MaxBytes: 4000000, MaxGas: -1},
				Evidence:  &abci.EvidenceParams{MaxAge: 1000000},
				Validator: &abci.ValidatorParams{PubKeyTypes: []string{"ed25519"}}}})
		n.applyUpdates(n.LastInit.Validators)
		n.sets[1] = n.snapshotSet()
		n.sets[2] = n.snapshotSet()
		for i := 0; i < spec.Warmup; i++ {
			n.Warm = append(n.Warm, n.RunBlock(Block{DT: time.Second}))
		}
		var fund [][]byte
		for i, a := range spec.Accounts {
			if a.Multi != nil {
				msg := &nodesTypes.MsgSend{FromAddress: Addr(FaucetKey), ToAddress: MultiAddr(*a.Multi), Amount: sdk.NewInt(a.Balance)}
				fund = append(fund, SignTx(spec.ChainID, msg, DefaultFee, "", int64(-1000-i), FaucetKey))
			}
		}
		// Nodes marked ViaTx stake now (all features are active): full non-custodial records with output address and
		// reward delegators, and fresh signing infos.
		for i, nd := range spec.Nodes {
			if !nd.ViaTx {
				continue
			}
			out := nd.Key
			if nd.Output != nil {
				out = nd.Output
			}
			url := nd.URL
			if url == "" {
				url = "https://node.example:443"
			}
			msg := &nodesTypes.MsgStake{PublicKey: nd.Key.PublicKey(), Chains: nd.Chains, Value: sdk.NewInt(nd.Stake), ServiceUrl: url,
				Output: Addr(out), RewardDelegators: nd.Delegators}
			fund = append(fund, SignTx(spec.ChainID, msg, DefaultFee, "", int64(-2000-i), nd.Key))
		}
		if len(fund) > 0 {
			r := n.RunBlock(Block{DT: time.Second, Txs: fund})
			for _, t := range r.Txs {
				if t.Code != 0 {
					panic("post-genesis setup transaction failed: " + t.Log)
				}
			}
			n.Warm = append(n.Warm, r)
			// two more empty blocks: validator updates of the setup block reach the consensus set
			n.Warm = append(n.Warm, n.RunBlock(Block{DT: time.Second}), n.RunBlock(Block{DT: time.Second}))
		}
	} else {
		n.Height = n.App.LastBlockHeight()
	}
	return n
}

func (n *Node) applyUpdates(us []abci.ValidatorUpdate) {
	for _, u := range us {
		pk, err := crypto.NewPublicKeyBz(u.PubKey.Data)
		if err != nil {
			panic(err)
		}
		a := hex.EncodeToString(pk.Address())
		if u.Power == 0 {
			delete(n.Current, a)
		} else {
			n.Current[a] = u.Power
		}
	}
}

func (n *Node) snapshotSet() []valInfo {
	ks := make([]string, 0, len(n.Current))
	for k := range n.Current {
		ks = append(ks, k)
	}
	sort.Strings(ks)
	out := make([]valInfo, 0, len(ks))
	for _, k := range ks {
		b, _ := hex.DecodeString(k)
		out = append(out, valInfo{b, n.Current[k]})
	}
	return out
}

// ValidatorsAt returns the (hex address -> power) consensus set that validates block h.
func (n *Node) ValidatorsAt(h int64) map[string]int64 {
	m := map[string]int64{}
	for _, v := range n.sets[h] {
		m[hex.EncodeToString(v.Addr)] = v.Power
	}
	return m
}

// BeginBlock starts block Height+1: saves the block in the block store (so historical contexts and
// entropy lookups work) and calls the application's BeginBlock.
func (n *Node) BeginBlock(b Block) {
	if n.inBlock {
		panic("BeginBlock inside a block")
	}
	h := n.Height + 1
	t := n.Time.Add(b.DT)
	txs := make([]tmtypes.Tx, len(b.Txs))
	for i, tx := range b.Txs {
		txs[i] = tmtypes.Tx(tx)
	}
	lastCommit := n.lastCommit
	if lastCommit == nil {
		lastCommit = tmtypes.NewCommit(tmtypes.BlockID{}, nil)
	}
	blk := tmtypes.MakeBlock(h, txs, lastCommit, nil)
	blk.ChainID = n.Spec.ChainID
	blk.Time = t
	blk.LastBlockID = n.lastID
	blk.AppHash = n.App.LastCommitID().Hash
	prevSet := n.sets[h-1]
	proposer := []byte(b.Proposer)
	if proposer == nil {
		if cur := n.sets[h]; len(cur) > 0 {
			proposer = cur[0].Addr
		} else {
			proposer = make([]byte, 20)
		}
	}
	blk.ProposerAddress = proposer
	// deterministic stand-ins for the hashes Tendermint would fill in
	blk.ValidatorsHash = hashOf("vals", h)
	blk.NextValidatorsHash = hashOf("nextvals", h)
	blk.ConsensusHash = hashOf("cons", 0)
	blk.LastResultsHash = hashOf("res", h)
	parts := blk.MakePartSet(65536)
	id := tmtypes.BlockID{Hash: blk.Hash(), PartsHeader: parts.Header()}
	seen := tmtypes.NewCommit(id, nil)
	n.BlockStore.SaveBlock(blk, parts, seen)
	n.lastID = id
	n.lastCommit = seen
	votes := make([]abci.VoteInfo, 0, len(prevSet))
	for _, v := range prevSet {
		votes = append(votes, abci.VoteInfo{Validator: abci.Validator{Address: v.Addr, Power: v.Power},
			SignedLastBlock: !b.Absent[hex.EncodeToString(v.Addr)]})
	}
	hdr := tmtypes.TM2PB.Header(&blk.Header)
	n.App.BeginBlock(abci.RequestBeginBlock{Hash: blk.Hash(), Header: hdr,
		LastCommitInfo: abci.LastCommitInfo{Votes: votes}, ByzantineValidators: b.Evidence})
	n.inBlock = true
	n.Time = t
	n.curTxs = nil
	n.curRes = nil
}

func hashOf(tag string, h int64) []byte {
	s := sha256.Sum256([]byte(fmt.Sprintf("%s/%d", tag, h)))
	return s[:]
}

// DeliverTx delivers one transaction inside the current block.
func (n *Node) DeliverTx(tx []byte) abci.ResponseDeliverTx {
	if !n.inBlock {
		panic("DeliverTx outside a block")
	}
	r := n.App.DeliverTx(abci.RequestDeliverTx{Tx: tx})
	n.curTxs = append(n.curTxs, tx)
	n.curRes = append(n.curRes, r)
	return r
}

// EndBlock ends the block and returns the validator updates.
func (n *Node) EndBlock() abci.ResponseEndBlock {
	return n.App.EndBlock(abci.RequestEndBlock{Height: n.Height + 1})
}

// Commit commits the block, indexes its transaction results (what Tendermint's indexer service does)
// and returns the transcript entry.
func (n *Node) Commit(eb abci.ResponseEndBlock) BlockResult {
	rc := n.App.Commit()
	h := n.Height + 1
	res := BlockResult{Height: h, AppHash: rc.Data, ValUpdates: eb.ValidatorUpdates}
	batch := make([]*tmtypes.TxResult, 0, len(n.curTxs))
	for i, tx := range n.curTxs {
		r := n.curRes[i]
		res.Txs = append(res.Txs, TxResult{Code: r.Code, Codespace: r.Codespace, Data: r.Data, Log: r.Log})
		batch = append(batch, &tmtypes.TxResult{Height: h, Index: uint32(i), Tx: tx, Result: r})
	}
	// Tendermint's indexer service hands the results of one block to the indexer as ONE batch (AddBatch)
	if len(batch) > 0 {
		tb := txindex.NewBatch(int64(len(batch)))
		for _, tr := range batch {
			if err := tb.Add(tr); err != nil {
				panic(err)
			}
		}
		if err := n.Indexer.AddBatch(tb); err != nil {
			panic(err)
		}
	}
	n.applyUpdates(eb.ValidatorUpdates)
	n.sets[h+2] = n.snapshotSet()
	if _, ok := n.sets[h+1]; !ok {
		n.sets[h+1] = n.sets[h]
	}
	n.Height = h
	n.inBlock = false
	return res
}

// RunBlock runs a whole block.
func (n *Node) RunBlock(b Block) BlockResult {
	n.BeginBlock(b)
	for _, tx := range b.Txs {
		n.DeliverTx(tx)
	}
	eb := n.EndBlock()
	return n.Commit(eb)
}

// Ctx returns a context over the root multistore with the header of the last committed block; reading
// through it sees the committed state (plus, inside a block, the block's writes so far).
func (n *Node) Ctx() sdk.Context {
	hdr := abci.Header{ChainID: n.Spec.ChainID, Height: n.Height, Time: n.Time}
	if n.inBlock {
		hdr.Height = n.Height + 1
	}
	return sdk.NewContext(n.App.Store(), hdr, false, log.NewNopLogger()).WithBlockStore(n.BlockStore).WithAppVersion(app.AppVersion)
}

// StoreNames lists the persistent substores in a fixed order.
func (n *Node) StoreNames() []string {
	names := make([]string, 0, len(n.App.Keys))
	for k := range n.App.Keys {
		names = append(names, k)
	}
	sort.Strings(names)
	return names
}

// KV is one key/value pair of a state dump.
type KV struct{ K, V []byte }

// Dump scans every persistent substore (sorted) of the root multistore.
func (n *Node) Dump() map[string][]KV {
	out := map[string][]KV{}
	for _, name := range n.StoreNames() {
		st := n.App.Store().GetKVStore(n.App.Keys[name])
		it, err := st.Iterator(nil, nil)
		if err != nil {
			panic(err)
		}
		var kvs []KV
		for ; it.Valid(); it.Next() {
			kvs = append(kvs, KV{append([]byte{}, it.Key()...), append([]byte{}, it.Value()...)})
		}
		it.Close()
		out[name] = kvs
	}
	return out
}

// DumpDigest is a hash over Dump (for cheap equality) .
func (n *Node) DumpDigest() string {
	d := n.Dump()
	h := sha256.New()
	for _, name := range n.StoreNames() {
		h.Write([]byte(name))
		for _, kv := range d[name] {
			h.Write([]byte{0})
			h.Write(kv.K)
			h.Write([]byte{1})
			h.Write(kv.V)
		}
	}
	return hex.EncodeToString(h.Sum(nil))
}

// DiffDumps renders the first differences between two dumps.
func DiffDumps(a, b map[string][]KV) string {
	var sb bytes.Buffer
	names := map[string]bool{}
	for k := range a {
		names[k] = true
	}
	for k := range b {
		names[k] = true
	}
	ns := make([]string, 0)
	for k := range names {
		ns = append(ns, k)
	}
	sort.Strings(ns)
	count := 0
	for _, name := range ns {
		am, bm := map[string][]byte{}, map[string][]byte{}
		for _, kv := range a[name] {
			am[string(kv.K)] = kv.V
		}
		for _, kv := range b[name] {
			bm[string(kv.K)] = kv.V
		}
		keys := map[string]bool{}
		for k := range am {
			keys[k] = true
		}
		for k := range bm {
			keys[k] = true
		}
		ks := make([]string, 0)
		for k := range keys {
			ks = append(ks, k)
		}
		sort.Strings(ks)
		for _, k := range ks {
			av, aok := am[k]
			bv, bok := bm[k]
			if aok != bok || !bytes.Equal(av, bv) {
				if count < 6 {
					fmt.Fprintf(&sb, "[%s] key %q(%x): A=%x(%v) B=%x(%v); ", name, k, k, trunc(av), aok, trunc(bv), bok)
				}
				count++
			}
		}
	}
	if count == 0 {
		return ""
	}
	return fmt.Sprintf("%d differing keys: %s", count, sb.String())
}

func trunc(b []byte) []byte {
	if len(b) > 48 {
		return b[:48]
	}
	return b
}

// ---------------------------------------------------------------------------------------------
// transactions

// SignTx builds the bytes of a standard transaction signed by priv over this chain's sign bytes.
func SignTx(chainID string, msg sdk.ProtoMsg, fee int64, memo string, entropy int64, priv crypto.PrivateKey) []byte {
	return SignTxOpts(TxOpts{ChainID: chainID, Msg: msg, Fee: sdk.NewCoins(sdk.NewCoin(sdk.DefaultStakeDenom, sdk.NewInt(fee))), Memo: memo, Entropy: entropy, Signer: priv, IncludePubKey: true})
}

// TxOpts gives full control over how a transaction is assembled (for adversarial variants).
type TxOpts struct {
	ChainID        string // chain id used in the sign bytes
	Msg            sdk.ProtoMsg
	Fee            sdk.Coins
	Memo           string
	Entropy        int64
	Signer         crypto.PrivateKey
	IncludePubKey  bool             // put the signer's public key into the signature
	PubKeyOverride crypto.PublicKey // if set, this public key is put into the signature instead
	SigOverride    []byte           // if non-nil, used as the signature bytes
	SignMsg        sdk.ProtoMsg     // if set, the signature is made over this message instead of Msg
	SignFee        sdk.Coins        // if set (non-nil), signature over this fee
	Height         int64            // encoding height; 0 = proto (after the codec upgrade); 1 = legacy amino
}

func SignTxOpts(o TxOpts) []byte {
	smsg := o.Msg
	if o.SignMsg != nil {
		smsg = o.SignMsg
	}
	sfee := o.Fee
	if o.SignFee != nil {
		sfee = o.SignFee
	}
	sb, err := authTypes.StdSignBytes(o.ChainID, o.Entropy, sfee, smsg, o.Memo)
	if err != nil {
		panic(err)
	}
	var sig []byte
	if o.SigOverride != nil {
		sig = o.SigOverride
	} else {
		sig, err = o.Signer.Sign(sb)
		if err != nil {
			panic(err)
		}
	}
	ss := authTypes.StdSignature{Signature: sig}
	if o.PubKeyOverride != nil {
		ss.PublicKey = o.PubKeyOverride
	} else if o.IncludePubKey {
		ss.PublicKey = o.Signer.PublicKey()
	}
	if ss.PublicKey == nil {
		// the repo's encoder dereferences the public key; a client that omits it sends the proto form directly
		any, err := codecTypes.NewAnyWithValue(o.Msg)
		if err != nil {
			panic(err)
		}
		ptx := authTypes.ProtoStdTx{Msg: *any, Fee: o.Fee, Signature: authTypes.ProtoStdSignature{Signature: sig}, Memo: o.Memo, Entropy: o.Entropy}
		bz, err := ptx.Marshal()
		if err != nil {
			panic(err)
		}
		var sizeBuf [binary.MaxVarintLen64]byte
		k := binary.PutUvarint(sizeBuf[:], uint64(len(bz)))
		return append(sizeBuf[:k], bz...)
	}
	tx := authTypes.NewTx(o.Msg, o.Fee, ss, o.Memo, o.Entropy)
	h := o.Height
	if h == 0 {
		h = -1 // proto encoding (any height after the codec upgrade)
	}
	bz, err := auth.DefaultTxEncoder(app.Codec())(tx, h)
	if err != nil {
		panic(err)
	}
	return bz
}

// ---------------------------------------------------------------------------------------------
// convenient state readers (raw, through the exported keepers' codecs where needed)

// Accounts reads every account (module accounts included) by iterating the auth store through the
// keeper's iterator (no node-local cache is involved) and returns hex address -> coins.
func (n *Node) Accounts() map[string]sdk.Coins {
	out := map[string]sdk.Coins{}
	ctx := n.Ctx()
	for _, acc := range n.App.VerifAccountKeeper().GetAllAccounts(ctx) {
		out[hex.EncodeToString(acc.GetAddress())] = acc.GetCoins()
	}
	return out
}

// Supply reads the stored total supply.
func (n *Node) Supply() sdk.Coins {
	s := n.App.VerifAccountKeeper().GetSupply(n.Ctx())
	if s == nil {
		return nil
	}
	return s.GetTotal()
}

// Balance is the upokt balance of addr (0 when the account does not exist).
func (n *Node) Balance(addr sdk.Address) sdk.BigInt {
	acc := n.App.VerifAccountKeeper().GetAccount(n.Ctx(), addr)
	if acc == nil {
		return sdk.ZeroInt()
	}
	return acc.GetCoins().AmountOf(sdk.DefaultStakeDenom)
}

// MustJSON is a small helper for rendering.
func MustJSON(v interface{}) string {
	b, err := json.Marshal(v)
	if err != nil {
		return fmt.Sprintf("%v", v)
	}
	return string(b)
}

// ---------------------------------------------------------------------------------------------
// multisig

// MultiKey builds the multi-signature public key of the given member keys (order matters).
func MultiKey(members []crypto.PrivateKey) crypto.PublicKeyMultiSignature {
	pks := make([]crypto.PublicKey, len(members))
	for i, m := range members {
		pks[i] = m.PublicKey()
	}
	return crypto.PublicKeyMultiSignature{PublicKeys: pks}
}

// MultiAddr is the account address of a multisig key.
func MultiAddr(pk crypto.PublicKeyMultiSignature) sdk.Address { return sdk.Address(pk.Address()) }

// SignMultiTx builds a transaction authenticated by a multisig key: signers[i] signs at position i of the
// signature list (signers may be fewer, more, permuted or foreign keys for adversarial variants). signMsg /
// signFee (optional) make every member sign different content than the transaction carries.
func SignMultiTx(chainID string, msg sdk.ProtoMsg, fee sdk.Coins, memo string, entropy int64, pub crypto.PublicKeyMultiSignature, signers []crypto.PrivateKey, signMsg sdk.ProtoMsg, signFee sdk.Coins) []byte {
	smsg := msg
	if signMsg != nil {
		smsg = signMsg
	}
	sfee := fee
	if signFee != nil {
		sfee = signFee
	}
	sb, err := authTypes.StdSignBytes(chainID, entropy, sfee, smsg, memo)
	if err != nil {
		panic(err)
	}
	ms := crypto.MultiSignature{Sigs: make([][]byte, 0, len(signers))}
	for _, s := range signers {
		sig, err := s.Sign(sb)
		if err != nil {
			panic(err)
		}
		ms.Sigs = append(ms.Sigs, sig)
	}
	ss := authTypes.StdSignature{Signature: ms.Marshal(), PublicKey: pub}
	tx := authTypes.NewTx(msg, fee, ss, memo, entropy)
	bz, err := auth.DefaultTxEncoder(app.Codec())(tx, -1)
	if err != nil {
		panic(err)
	}
	return bz
}

// ---------------------------------------------------------------------------------------------
// export / import support

// Logger is handed to the application (default: discard). The C43 import subprocess sets a real one so that the
// reason of an os.Exit inside a genesis check is visible.
var Logger log.Logger = log.NewNopLogger()

// NewNodeFromGenesis builds a fresh node (fresh databases) whose InitChain is fed the given application genesis
// state instead of one rendered from spec; no warm-up or setup blocks are run. spec supplies only the feature
// configuration and chain id. Import checks inside the modules may os.Exit: call this from a subprocess.
func NewNodeFromGenesis(spec *Spec, gs app.GenesisState) *Node {
	ResetGlobals(spec)
	app.GenState = gs
	n := &Node{Spec: spec, DB: dbm.NewMemDB(), BlockDB: dbm.NewMemDB(), TxDB: dbm.NewMemDB(), sets: map[int64][]valInfo{}, Current: map[string]int64{}}
	n.App = app.NewPocketCoreApp(gs, keys.NewInMemory(), stubClient{}, &pocketTypes.HostedBlockchains{M: map[string]pocketTypes.HostedBlockchain{}},
		Logger, n.DB, spec.Cache, 5000000, bam.SetPruning(store.PruneNothing))
	n.BlockStore = tmStore.NewBlockStore(n.BlockDB)
	n.Indexer = sdk.NewTransactionIndexer(n.TxDB)
	n.App.SetBlockstore(n.BlockStore)
	n.App.SetTxIndexer(n.Indexer)
	n.Time = spec.GenesisTime
	n.LastInit = n.App.InitChain(abci.RequestInitChain{ChainId: spec.ChainID, Time: spec.GenesisTime,
		ConsensusParams: &abci.ConsensusParams{Block: &abci.BlockParams{MaxBytes: 4000000, MaxGas: -1},
			Evidence:  &abci.EvidenceParams{MaxAge: 1000000},
			Validator: &abci.ValidatorParams{PubKeyTypes: []string{"ed25519"}}}})
	n.applyUpdates(n.LastInit.Validators)
	n.sets[1] = n.snapshotSet()
	n.sets[2] = n.snapshotSet()
	return n
}

// StateView is a normalised, JSON-serialisable view of the application state (what an exported genesis is meant to
// reproduce): category -> item -> canonical JSON/string.
func (n *Node) StateView() map[string]map[string]string {
	ctx := n.Ctx()
	cdc := app.Codec()
	js := func(v interface{}) string {
		b, err := cdc.MarshalJSON(v)
		if err != nil {
			return "ERR:" + err.Error()
		}
		return string(sdk.MustSortJSON(b))
	}
	v := map[string]map[string]string{"accounts": {}, "supply": {}, "nodes": {}, "apps": {}, "params": {}, "claims": {}}
	for a, c := range n.Accounts() {
		if !c.IsZero() {
			v["accounts"][a] = c.String()
		}
	}
	v["supply"]["total"] = n.Supply().String()
	for _, val := range n.App.VerifNodesKeeper().GetAllValidators(ctx) {
		v["nodes"][val.Address.String()] = js(val)
	}
	for _, a := range n.App.VerifAppsKeeper().GetAllApplications(ctx) {
		v["apps"][a.Address.String()] = js(a)
	}
	v["params"]["pos"] = js(n.App.VerifNodesKeeper().GetParams(ctx))
	v["params"]["application"] = js(n.App.VerifAppsKeeper().GetParams(ctx))
	v["params"]["pocketcore"] = js(n.App.VerifPocketKeeper().GetParams(ctx))
	v["params"]["auth"] = js(n.App.VerifAccountKeeper().GetParams(ctx))
	gp := n.App.VerifGovKeeper().GetParams(ctx)
	v["params"]["gov/acl"] = js(gp.ACL)
	v["params"]["gov/daoOwner"] = gp.DAOOwner.String()
	v["params"]["gov/upgrade"] = js(gp.Upgrade)
	// Pending claims are read INDEPENDENTLY of Keeper.GetAllClaims (the function the export itself uses): raw prefix
	// scan of the pocketcore store with the module's exported claim key prefix, every value decoded from a private
	// copy of the bytes into a fresh variable. Item key = hex of the store key behind the prefix
	// (servicer address | session header hash | evidence type byte), which is the claim's identity on any chain.
	st := n.App.Store().GetKVStore(n.App.Keys[pocketTypes.StoreKey])
	it, err := sdk.KVStorePrefixIterator(st, pocketTypes.ClaimKey)
	if err != nil {
		panic(err)
	}
	defer it.Close()
	for ; it.Valid(); it.Next() {
		id := fmt.Sprintf("%x", it.Key()[len(pocketTypes.ClaimKey):])
		var cl pocketTypes.MsgClaim
		if err := cdc.UnmarshalBinaryBare(append([]byte{}, it.Value()...), &cl, ctx.BlockHeight()); err != nil {
			v["claims"][id] = "ERR:" + err.Error()
			continue
		}
		v["claims"][id] = js(cl)
	}
	return v
}

// SetFeatures replaces the named-feature schedule of the spec consistently (process globals AND the upgrade
// parameter carried by the gov genesis).
func (s *Spec) SetFeatures(f map[string]int64) {
	s.Features = map[string]int64{}
	var list []string
	for k, v := range f {
		s.Features[k] = v
		list = append(list, fmt.Sprintf("%s:%d", k, v))
	}
	sort.Strings(list)
	s.GovUpgrade.Features = list
}

// Restart simulates a process restart of the node between blocks: every process-global cache is reset and the
// application is rebuilt over the same databases (state, block store, tx index); the simulator's own bookkeeping
// (validator sets, last block id) is kept.
func (n *Node) Restart() {
	if n.inBlock {
		panic("Restart inside a block")
	}
	ResetGlobals(n.Spec)
	// a new process starts with the DEFAULT activation schedule (nothing scheduled) and derives the real one from the
	// upgrade stored in state while the application is constructed - not from the genesis spec
	codec.UpgradeFeatureMap = make(map[string]int64)
	codec.UpgradeHeight = math.MaxInt64
	codec.OldUpgradeHeight = 0
	app.GenState = BuildGenesis(n.Spec)
	n.App = app.NewPocketCoreApp(app.GenState, keys.NewInMemory(), stubClient{}, &pocketTypes.HostedBlockchains{M: map[string]pocketTypes.HostedBlockchain{}},
		log.NewNopLogger(), n.DB, n.Spec.Cache, 5000000, bam.SetPruning(store.PruneNothing))
	n.BlockStore = tmStore.NewBlockStore(n.BlockDB)
	n.Indexer = sdk.NewTransactionIndexer(n.TxDB)
	n.App.SetBlockstore(n.BlockStore)
	n.App.SetTxIndexer(n.Indexer)
	if n.App.LastBlockHeight() != n.Height {
		panic(fmt.Sprintf("restart: application is at height %d, simulator at %d", n.App.LastBlockHeight(), n.Height))
	}
}
