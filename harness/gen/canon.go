package gen

import (
	"encoding/hex"
	"fmt"
	"reflect"
	"sort"
	"strconv"
	"strings"
	"time"

	sdk "github.com/pokt-network/pocket-core/types"
	"github.com/willf/bloom"
)

// Canon renders any generated value as a deterministic, codec-independent string: a reflection walk over
// exported fields in which
//
//   - nil and empty slices / maps / byte strings render identically (protobuf cannot keep the difference),
//   - pointers are dereferenced and a pointer to T renders like T (amino decodes interface fields into
//     values, protobuf into pointers),
//   - map entries are sorted by key,
//   - sdk.BigInt / sdk.BigDec render as decimal strings with the zero value (nil big.Int) equal to 0,
//   - time.Time renders as the UTC instant,
//   - interface-typed fields render the concrete type name followed by the value.
//
// Two values are semantically equal iff their Canon strings are equal. Canon never calls the codec under
// test (no MarshalJSON), so it can serve as the oracle side of round-trip comparisons; it is also the
// rendering used for case records.
func Canon(v any) string {
	var sb strings.Builder
	canon(&sb, reflect.ValueOf(v), false)
	return sb.String()
}

// SemEqual reports whether a and b are semantically equal (see Canon).
func SemEqual(a, b any) bool { return Canon(a) == Canon(b) }

var (
	tBigInt = reflect.TypeOf(sdk.BigInt{})
	tBigDec = reflect.TypeOf(sdk.BigDec{})
	tTime   = reflect.TypeOf(time.Time{})
	tBloom  = reflect.TypeOf(bloom.BloomFilter{})
)

func bigString(s fmt.Stringer) (out string) {
	defer func() {
		if recover() != nil {
			out = "0"
		}
	}()
	out = s.String()
	if out == "<nil>" {
		out = "0"
	}
	return
}

func canon(sb *strings.Builder, v reflect.Value, withType bool) {
	if !v.IsValid() {
		sb.WriteString("nil")
		return
	}
	switch v.Type() {
	case tBigInt:
		sb.WriteString(bigString(v.Interface().(sdk.BigInt)))
		return
	case tBigDec:
		s := bigString(v.Interface().(sdk.BigDec))
		if s == "0" {
			s = "0.000000000000000000"
		}
		sb.WriteString(s)
		return
	case tTime:
		sb.WriteString(v.Interface().(time.Time).UTC().Format(time.RFC3339Nano))
		return
	case tBloom:
		bf := v.Interface().(bloom.BloomFilter)
		sb.WriteString("bloom:")
		func() {
			defer func() {
				if recover() != nil {
					sb.WriteString("<zero>")
				}
			}()
			bz, err := bf.GobEncode()
			if err != nil {
				sb.WriteString("<err>")
				return
			}
			sb.WriteString(hex.EncodeToString(bz))
		}()
		return
	}
	switch v.Kind() {
	case reflect.Interface, reflect.Ptr:
		if v.IsNil() {
			sb.WriteString("nil")
			return
		}
		e := v.Elem()
		if v.Kind() == reflect.Interface {
			// concrete type name without pointer stars
			inner := e
			for inner.Kind() == reflect.Ptr && !inner.IsNil() {
				inner = inner.Elem()
			}
			sb.WriteString(inner.Type().Name())
			sb.WriteString("(")
			canon(sb, e, false)
			sb.WriteString(")")
			return
		}
		canon(sb, e, withType)
	case reflect.Struct:
		sb.WriteString(v.Type().Name())
		sb.WriteString("{")
		first := true
		t := v.Type()
		for i := 0; i < v.NumField(); i++ {
			f := t.Field(i)
			if f.PkgPath != "" || strings.HasPrefix(f.Name, "XXX_") { // unexported / proto internals
				continue
			}
			if !first {
				sb.WriteString(" ")
			}
			first = false
			sb.WriteString(f.Name)
			sb.WriteString(":")
			canon(sb, v.Field(i), false)
		}
		sb.WriteString("}")
	case reflect.Slice, reflect.Array:
		if v.Type().Elem().Kind() == reflect.Uint8 {
			n := v.Len()
			bz := make([]byte, n)
			for i := 0; i < n; i++ {
				bz[i] = byte(v.Index(i).Uint())
			}
			sb.WriteString("x'")
			sb.WriteString(hex.EncodeToString(bz))
			sb.WriteString("'")
			return
		}
		sb.WriteString("[")
		for i := 0; i < v.Len(); i++ {
			if i > 0 {
				sb.WriteString(" ")
			}
			canon(sb, v.Index(i), false)
		}
		sb.WriteString("]")
	case reflect.Map:
		type kv struct{ k, v string }
		var kvs []kv
		it := v.MapRange()
		for it.Next() {
			var kb, vb strings.Builder
			canon(&kb, it.Key(), false)
			canon(&vb, it.Value(), false)
			kvs = append(kvs, kv{kb.String(), vb.String()})
		}
		sort.Slice(kvs, func(i, j int) bool { return kvs[i].k < kvs[j].k })
		sb.WriteString("{")
		for i, e := range kvs {
			if i > 0 {
				sb.WriteString(" ")
			}
			sb.WriteString(e.k)
			sb.WriteString(":")
			sb.WriteString(e.v)
		}
		sb.WriteString("}")
	case reflect.String:
		sb.WriteString(strconv.Quote(v.String()))
	case reflect.Bool:
		sb.WriteString(strconv.FormatBool(v.Bool()))
	case reflect.Int, reflect.Int8, reflect.Int16, reflect.Int32, reflect.Int64:
		sb.WriteString(strconv.FormatInt(v.Int(), 10))
	case reflect.Uint, reflect.Uint8, reflect.Uint16, reflect.Uint32, reflect.Uint64, reflect.Uintptr:
		sb.WriteString(strconv.FormatUint(v.Uint(), 10))
	case reflect.Float32, reflect.Float64:
		sb.WriteString(strconv.FormatFloat(v.Float(), 'g', -1, 64))
	default:
		sb.WriteString(fmt.Sprintf("<%s>", v.Kind()))
	}
}
