package gen

import (
	"bytes"
	stded "crypto/ed25519"
	"crypto/sha256"
	"fmt"

	"github.com/pokt-network/pocket-core/crypto"
	sdk "github.com/pokt-network/pocket-core/types"
	"github.com/tendermint/tendermint/crypto/secp256k1"
	"pgregory.net/rapid"
)

// Signer is anything that owns a public key and can produce a signature that verifies under it:
// a single Key or a (possibly nested) MultiKey.
type Signer interface {
	PublicKey() crypto.PublicKey
	// Address is the 20-byte account address of PublicKey().
	Address() sdk.Address
	// Sign returns a signature over msg that PublicKey().VerifyBytes(msg, sig) accepts.
	Sign(msg []byte) []byte
	// Describe is a short stable rendering for case records (algorithm + seed prefix, never key material).
	Describe() string
}

// Key is a deterministic single key pair.
type Key struct {
	Priv crypto.PrivateKey
	Pub  crypto.PublicKey
	Addr sdk.Address
	Algo string // "ed25519" | "secp256k1"
	Seed []byte // the 32-byte seed the pair was derived from
}

var _ Signer = Key{}

func (k Key) PublicKey() crypto.PublicKey { return k.Pub }
func (k Key) Address() sdk.Address        { return k.Addr }
func (k Key) Describe() string            { return fmt.Sprintf("%s:%x", k.Algo, k.Seed[:4]) }

// Sign signs msg; it panics on the (impossible for these key types) signing error.
func (k Key) Sign(msg []byte) []byte {
	sig, err := k.Priv.Sign(msg)
	if err != nil {
		panic(err)
	}
	return sig
}

// Raw64 returns the 64-byte ed25519 private key (seed‖pub) as the array keybase.ImportPrivateKeyObject takes.
// It panics for secp256k1 keys.
func (k Key) Raw64() (out [64]byte) {
	if k.Algo != "ed25519" {
		panic("Raw64 on non-ed25519 key")
	}
	copy(out[:], k.Priv.RawBytes())
	return
}

func seed32(seed []byte) []byte {
	if len(seed) == 32 {
		return append([]byte{}, seed...)
	}
	h := sha256.Sum256(seed)
	return h[:]
}

// Ed25519FromSeed derives an ed25519 pair from seed (hashed to 32 bytes unless it already is 32 bytes long)
// through crypto.NewPrivateKeyBz(seed‖pub).
func Ed25519FromSeed(seed []byte) Key {
	s := seed32(seed)
	raw := stded.NewKeyFromSeed(s) // seed‖pub, 64 bytes
	priv, err := crypto.NewPrivateKeyBz(raw)
	if err != nil {
		panic(err)
	}
	pub := priv.PublicKey()
	return Key{Priv: priv, Pub: pub, Addr: sdk.Address(pub.Address()), Algo: "ed25519", Seed: s}
}

// Secp256k1FromSeed derives a secp256k1 pair from seed (the secret is hashed into the scalar range by
// tendermint's GenPrivKeySecp256k1) through crypto.NewPrivateKeyBz(32 bytes).
func Secp256k1FromSeed(seed []byte) Key {
	s := seed32(seed)
	tm := secp256k1.GenPrivKeySecp256k1(s)
	priv, err := crypto.NewPrivateKeyBz(tm[:])
	if err != nil {
		panic(err)
	}
	pub := priv.PublicKey()
	return Key{Priv: priv, Pub: pub, Addr: sdk.Address(pub.Address()), Algo: "secp256k1", Seed: s}
}

// PoolKey returns the i-th key of a fixed pool (ed25519), handy when several generated objects must refer
// to the same actor.
func PoolKey(i int) Key { return Ed25519FromSeed([]byte(fmt.Sprintf("verif-pool-key-%d", i))) }

// Seed draws a 32-byte key seed: half of the time one of 8 pool seeds (so that the same key shows up in
// several places of a case), otherwise 32 random bytes.
func Seed() *rapid.Generator[[]byte] {
	return rapid.Custom(func(t *rapid.T) []byte {
		if rapid.Bool().Draw(t, "poolSeed") {
			i := rapid.IntRange(0, 7).Draw(t, "poolIdx")
			return seed32([]byte(fmt.Sprintf("verif-pool-key-%d", i)))
		}
		return rapid.SliceOfN(rapid.Byte(), 32, 32).Draw(t, "seed")
	})
}

// Ed25519Key draws a deterministic ed25519 key.
func Ed25519Key() *rapid.Generator[Key] {
	return rapid.Custom(func(t *rapid.T) Key { return Ed25519FromSeed(Seed().Draw(t, "edSeed")) })
}

// Secp256k1Key draws a deterministic secp256k1 key.
func Secp256k1Key() *rapid.Generator[Key] {
	return rapid.Custom(func(t *rapid.T) Key { return Secp256k1FromSeed(Seed().Draw(t, "secpSeed")) })
}

// AnyKey draws an ed25519 (3 in 4) or secp256k1 (1 in 4) key.
func AnyKey() *rapid.Generator[Key] {
	return rapid.Custom(func(t *rapid.T) Key {
		if rapid.IntRange(0, 3).Draw(t, "algo") == 0 {
			return Secp256k1Key().Draw(t, "key")
		}
		return Ed25519Key().Draw(t, "key")
	})
}

// MultiKey is a multi-signature key: an ordered member list; a valid signature carries every member's
// signature in member order (crypto.MultiSignature, amino encoded).
type MultiKey struct {
	Pub     crypto.PublicKeyMultiSignature
	Members []Signer
}

var _ Signer = MultiKey{}

// NewMultiKey builds the multisig key over members (>= 2) through PublicKeyMultiSignature.NewMultiKey.
func NewMultiKey(members ...Signer) MultiKey {
	pks := make([]crypto.PublicKey, len(members))
	for i, m := range members {
		pks[i] = m.PublicKey()
	}
	mk, err := crypto.PublicKeyMultiSignature{}.NewMultiKey(pks...)
	if err != nil {
		panic(err)
	}
	return MultiKey{Pub: mk.(crypto.PublicKeyMultiSignature), Members: members}
}

func (m MultiKey) PublicKey() crypto.PublicKey { return m.Pub }
func (m MultiKey) Address() sdk.Address        { return sdk.Address(m.Pub.Address()) }
func (m MultiKey) Describe() string {
	s := "multi["
	for i, mem := range m.Members {
		if i > 0 {
			s += ","
		}
		s += mem.Describe()
	}
	return s + "]"
}

// MemberSigs returns every member's signature over msg, in member order.
func (m MultiKey) MemberSigs(msg []byte) [][]byte {
	sigs := make([][]byte, len(m.Members))
	for i, mem := range m.Members {
		sigs[i] = mem.Sign(msg)
	}
	return sigs
}

// Sign returns the in-order multi-signature over msg.
func (m MultiKey) Sign(msg []byte) []byte { return MarshalMultiSig(m.MemberSigs(msg)) }

// MarshalMultiSig encodes a list of member signatures exactly as given (no reordering, no checks).
func MarshalMultiSig(sigs [][]byte) []byte { return crypto.MultiSignature{Sigs: sigs}.Marshal() }

// MultiKeyOf draws a multisig key with between min and max members (mixed ed25519/secp256k1). With
// nested=true a member is itself a 2-member multisig about once in eight draws (depth 2 at most).
func MultiKeyOf(min, max int, nested bool) *rapid.Generator[MultiKey] {
	return rapid.Custom(func(t *rapid.T) MultiKey {
		n := rapid.IntRange(min, max).Draw(t, "members")
		ms := make([]Signer, n)
		for i := range ms {
			if nested && rapid.IntRange(0, 7).Draw(t, "nest") == 0 {
				ms[i] = NewMultiKey(AnyKey().Draw(t, "inner0"), AnyKey().Draw(t, "inner1"))
			} else {
				ms[i] = AnyKey().Draw(t, "member")
			}
		}
		return NewMultiKey(ms...)
	})
}

// AnySigner draws a single key (3 in 4) or a 2-4 member multisig key (1 in 4).
func AnySigner() *rapid.Generator[Signer] {
	return rapid.Custom(func(t *rapid.T) Signer {
		if rapid.IntRange(0, 3).Draw(t, "multi") == 0 {
			return MultiKeyOf(2, 4, true).Draw(t, "mk")
		}
		return AnyKey().Draw(t, "sk")
	})
}

// PublicKey draws a public key of any supported kind (ed25519, secp256k1, multisig). Never nil.
func PublicKey() *rapid.Generator[crypto.PublicKey] {
	return rapid.Custom(func(t *rapid.T) crypto.PublicKey { return AnySigner().Draw(t, "signer").PublicKey() })
}

// OptPublicKey is PublicKey that is nil about one time in four (for fields where the key is optional:
// BaseAccount.PubKey, StdSignature.PublicKey).
func OptPublicKey() *rapid.Generator[crypto.PublicKey] {
	return rapid.Custom(func(t *rapid.T) crypto.PublicKey {
		if rapid.IntRange(0, 3).Draw(t, "nilpk") == 0 {
			return nil
		}
		return PublicKey().Draw(t, "pk")
	})
}

// Address draws a 20-byte address: the address of a pool/random key (most often), 20 arbitrary bytes, or the all-zero /
// all-0xFF address.
func Address() *rapid.Generator[sdk.Address] {
	return rapid.Custom(func(t *rapid.T) sdk.Address {
		switch rapid.SampledFrom([]int{0, 0, 0, 0, 1, 1, 1, 1, 1, 1, 1, 1, 2, 3}).Draw(t, "rawAddr") {
		case 0:
			return sdk.Address(rapid.SliceOfN(rapid.Byte(), 20, 20).Draw(t, "addr"))
		case 2:
			return sdk.Address(make([]byte, 20)) // twenty zero bytes: a legal address, not an empty one
		case 3:
			return sdk.Address(bytes.Repeat([]byte{0xff}, 20))
		}
		return Ed25519Key().Draw(t, "addrKey").Addr
	})
}

// OptAddress is Address that is nil about one time in three (optional address fields such as
// MsgStake.Output, Validator.OutputAddress, MsgDAOTransfer.ToAddress for burns).
func OptAddress() *rapid.Generator[sdk.Address] {
	return rapid.Custom(func(t *rapid.T) sdk.Address {
		if rapid.IntRange(0, 2).Draw(t, "nilAddr") == 0 {
			return nil
		}
		return Address().Draw(t, "a")
	})
}
