// Package gen is the shared library of rapid generators for pocket-core domain values: deterministic
// keys, addresses, amounts, coins, every message type of x/nodes, x/apps, x/gov and x/pocketcore,
// StdTx with single and multi signatures, accounts, validators, applications, claims, evidence,
// signing infos and module params.
//
// Rules every generator in this package follows:
//
//   - All randomness comes from the *rapid.T handed in. No OS RNG, no time.Now, no map iteration order:
//     keys are derived from rapid-drawn seeds (crypto.NewPrivateKeyBz(seed‖pub) for ed25519, never
//     crypto.GenerateEd25519PrivKey).
//   - Values are the ones real constructors / ValidateBasic admit (20-byte addresses, 32-byte ed25519 keys,
//     hex chain ids, https://host.tld:port service URLs, UTC times, sorted valid Coins) while optional
//     fields are freely nil / empty. Generators that can also produce ValidateBasic-inadmissible values
//     say so in their doc comment.
//   - Collections are small by default and hit the documented maxima now and then.
//
// The package contains no oracle. Canon (canon.go) is a codec-independent structural rendering used to
// compare values semantically (nil and empty collections identified) and to print generated cases.
package gen

import (
	"math"

	"github.com/pokt-network/pocket-core/app"
	"github.com/pokt-network/pocket-core/codec"
)

// Heights with a fixed meaning under the default process globals (see ResetCodecGlobals).
const (
	// AminoHeight selects the legacy amino binary codec (any 0 <= h < codec.UpgradeCodecHeight does).
	AminoHeight int64 = 0
	// ProtoHeight selects the protobuf binary codec (-1 is the "latest" sentinel used by clients).
	ProtoHeight int64 = -1
)

// Codec returns the fully registered application codec (app.Codec()): the same instance every module's
// ModuleCdc points to once package app is linked in, so GetSignBytes, StdTx.FromProto and the keepers all
// use it.
func Codec() *codec.Codec { return app.Codec() }

// ResetCodecGlobals restores every process global that decides which binary encoding the codec picks at a
// height (codec.UpgradeHeight, OldUpgradeHeight, UpgradeFeatureMap, TestMode and the per-codec override).
// Call it at the start of every case.
func ResetCodecGlobals() {
	codec.UpgradeHeight = math.MaxInt64
	codec.OldUpgradeHeight = 0
	codec.UpgradeFeatureMap = make(map[string]int64)
	codec.TestMode = 0
	Codec().DisableUpgradeOverride()
}
