package gen

import (
	"encoding/hex"
	"fmt"
	"math/big"
	"sort"
	"strings"
	"time"

	sdk "github.com/pokt-network/pocket-core/types"
	"pgregory.net/rapid"
)

// MaxBigInt is 2^255-1, the largest magnitude sdk.BigInt accepts.
func MaxBigInt() sdk.BigInt {
	m := new(big.Int).Lsh(big.NewInt(1), 255)
	return sdk.NewIntFromBigInt(m.Sub(m, big.NewInt(1)))
}

// PosInt draws a strictly positive sdk.BigInt from {1, small, ~10^6..10^12, 2^62, 2^64+k, 2^254, 2^255-1}.
func PosInt() *rapid.Generator[sdk.BigInt] {
	return rapid.Custom(func(t *rapid.T) sdk.BigInt {
		switch rapid.IntRange(0, 7).Draw(t, "intClass") {
		case 0:
			return sdk.NewInt(1)
		case 1, 2:
			return sdk.NewInt(rapid.Int64Range(1, 1000).Draw(t, "small"))
		case 3, 4:
			return sdk.NewInt(rapid.Int64Range(1_000_000, 1_000_000_000_000).Draw(t, "upokt"))
		case 5:
			return sdk.NewInt(1 << 62)
		case 6:
			b := new(big.Int).Lsh(big.NewInt(1), 64)
			return sdk.NewIntFromBigInt(b.Add(b, big.NewInt(rapid.Int64Range(0, 1<<40).Draw(t, "k"))))
		default:
			if rapid.Bool().Draw(t, "max") {
				return MaxBigInt()
			}
			return sdk.NewIntFromBigInt(new(big.Int).Lsh(big.NewInt(1), 254))
		}
	})
}

// NonNegInt draws zero one time in five, otherwise PosInt.
func NonNegInt() *rapid.Generator[sdk.BigInt] {
	return rapid.Custom(func(t *rapid.T) sdk.BigInt {
		if rapid.IntRange(0, 4).Draw(t, "zero") == 0 {
			return sdk.ZeroInt()
		}
		return PosInt().Draw(t, "pos")
	})
}

// Dec draws a non-negative sdk.BigDec with up to 18 decimals (0, 1, fractions such as 0.05, large values).
func Dec() *rapid.Generator[sdk.BigDec] {
	return rapid.Custom(func(t *rapid.T) sdk.BigDec {
		switch rapid.IntRange(0, 4).Draw(t, "decClass") {
		case 0:
			return sdk.ZeroDec()
		case 1:
			return sdk.OneDec()
		case 2:
			return sdk.NewDecWithPrec(rapid.Int64Range(1, 999).Draw(t, "frac"), int64(rapid.IntRange(1, 18).Draw(t, "prec")))
		case 3:
			return sdk.NewDec(rapid.Int64Range(2, 1<<40).Draw(t, "whole"))
		default:
			return sdk.NewDecWithPrec(rapid.Int64Range(1, 1<<62).Draw(t, "mant"), int64(rapid.IntRange(0, 18).Draw(t, "prec")))
		}
	})
}

// Denom draws a valid coin denomination ([a-z][a-z0-9]{2,15}); "upokt" half of the time.
func Denom() *rapid.Generator[string] {
	return rapid.Custom(func(t *rapid.T) string {
		if rapid.Bool().Draw(t, "upokt") {
			return sdk.DefaultStakeDenom
		}
		return rapid.StringMatching(`[a-z][a-z0-9]{2,15}`).Draw(t, "denom")
	})
}

// Coins draws a valid sdk.Coins value (sorted, distinct denoms, positive amounts) with 0..max entries.
// The empty result is either nil or sdk.Coins{} (both occur).
func Coins(max int) *rapid.Generator[sdk.Coins] {
	return rapid.Custom(func(t *rapid.T) sdk.Coins {
		n := rapid.IntRange(0, max).Draw(t, "ncoins")
		if n == 0 {
			if rapid.Bool().Draw(t, "nilCoins") {
				return nil
			}
			return sdk.Coins{}
		}
		seen := map[string]bool{}
		var cs []sdk.Coin
		for i := 0; i < n; i++ {
			d := Denom().Draw(t, "d")
			if seen[d] {
				continue
			}
			seen[d] = true
			cs = append(cs, sdk.NewCoin(d, PosInt().Draw(t, "amt")))
		}
		return sdk.NewCoins(cs...)
	})
}

// Fee draws a transaction fee: usually a single upokt coin, sometimes empty or several coins.
func Fee() *rapid.Generator[sdk.Coins] {
	return rapid.Custom(func(t *rapid.T) sdk.Coins {
		if rapid.IntRange(0, 3).Draw(t, "feeKind") > 0 {
			return sdk.NewCoins(sdk.NewCoin(sdk.DefaultStakeDenom, sdk.NewInt(rapid.Int64Range(1, 10_000_000).Draw(t, "fee"))))
		}
		return Coins(3).Draw(t, "feeCoins")
	})
}

// Chain draws a relay chain identifier admitted by ValidateNetworkIdentifier (4 hex chars, sometimes 2).
func Chain() *rapid.Generator[string] {
	return rapid.Custom(func(t *rapid.T) string {
		if rapid.IntRange(0, 5).Draw(t, "short") == 0 {
			return fmt.Sprintf("%02x", rapid.IntRange(0, 255).Draw(t, "c1"))
		}
		if rapid.Bool().Draw(t, "upper") {
			return fmt.Sprintf("%04X", rapid.IntRange(0, 0xFFFF).Draw(t, "c2"))
		}
		return fmt.Sprintf("%04x", rapid.IntRange(0, 40).Draw(t, "c2"))
	})
}

// Chains draws a chain list with min..max entries (duplicates possible); max 20 reaches beyond the default
// MaximumChains of 15. With min == 0 the empty list is nil or []string{}.
func Chains(min, max int) *rapid.Generator[[]string] {
	return rapid.Custom(func(t *rapid.T) []string {
		n := rapid.IntRange(min, max).Draw(t, "nchains")
		if n == 0 {
			if rapid.Bool().Draw(t, "nilChains") {
				return nil
			}
			return []string{}
		}
		out := make([]string, n)
		for i := range out {
			out[i] = Chain().Draw(t, "chain")
		}
		return out
	})
}

// ServiceURL draws a URL admitted by nodes ValidateServiceURL: http(s)://<host with a dot>:<port>, total
// length up to 255 (long hosts occur).
func ServiceURL() *rapid.Generator[string] {
	return rapid.Custom(func(t *rapid.T) string {
		scheme := rapid.SampledFrom([]string{"https://", "http://"}).Draw(t, "scheme")
		host := rapid.StringMatching(`[a-z0-9]{1,12}(\.[a-z0-9]{1,8}){1,3}`).Draw(t, "host")
		if rapid.IntRange(0, 9).Draw(t, "longHost") == 0 {
			host = strings.Repeat("a", 230-len(host)) + "." + host
		}
		port := rapid.IntRange(0, 65535).Draw(t, "port")
		return fmt.Sprintf("%s%s:%d", scheme, host, port)
	})
}

// Time draws a UTC time: the zero time (1 in 4, the value stored for staked actors), otherwise a time
// between 1970 and 2100 with nanoseconds (the kind ctx.BlockHeader().Time.Add(unstakingTime) yields).
func Time() *rapid.Generator[time.Time] {
	return rapid.Custom(func(t *rapid.T) time.Time {
		if rapid.IntRange(0, 3).Draw(t, "zeroTime") == 0 {
			return time.Time{}
		}
		sec := rapid.Int64Range(0, 4102444800).Draw(t, "sec")
		ns := int64(0)
		if rapid.Bool().Draw(t, "hasNanos") {
			ns = rapid.Int64Range(0, 999_999_999).Draw(t, "nsec")
		}
		return time.Unix(sec, ns).UTC()
	})
}

// Duration draws a positive duration between 1 ns and ~10 years.
func Duration() *rapid.Generator[time.Duration] {
	return rapid.Custom(func(t *rapid.T) time.Duration {
		switch rapid.IntRange(0, 2).Draw(t, "durClass") {
		case 0:
			return time.Duration(rapid.Int64Range(1, 1000).Draw(t, "ns"))
		case 1:
			return time.Duration(rapid.Int64Range(1, 3600*24*30).Draw(t, "s")) * time.Second
		default:
			return time.Duration(rapid.Int64Range(1, 24*3650).Draw(t, "h")) * time.Hour
		}
	})
}

// Text draws a short free-text string (memo, chain id, hints): empty, ASCII, JSON-hostile characters
// (quotes, backslash, <, >, &, control characters) and multi-byte unicode all occur. Always valid UTF-8.
func Text(maxLen int) *rapid.Generator[string] {
	pieces := []string{"a", "Z", "0", " ", "\"", "\\", "<", ">", "&", "/", "é", "ß", "世", "界", "😀", "\n", "\t", " ", "{", "}", ":", ","}
	return rapid.Custom(func(t *rapid.T) string {
		n := rapid.IntRange(0, maxLen).Draw(t, "textLen")
		var sb strings.Builder
		for i := 0; i < n; i++ {
			sb.WriteString(rapid.SampledFrom(pieces).Draw(t, "ch"))
		}
		return sb.String()
	})
}

// ChainID draws a tendermint chain id ("mainnet", "testnet", or a short ASCII id).
func ChainID() *rapid.Generator[string] {
	return rapid.Custom(func(t *rapid.T) string {
		if rapid.Bool().Draw(t, "wellKnown") {
			return rapid.SampledFrom([]string{"mainnet", "testnet", "pocket-test"}).Draw(t, "cid")
		}
		return rapid.StringMatching(`[a-z][a-z0-9-]{0,12}`).Draw(t, "cid")
	})
}

// Entropy draws a tx entropy value (any int64; 0, 1, max and negative values included).
func Entropy() *rapid.Generator[int64] {
	return rapid.Custom(func(t *rapid.T) int64 {
		switch rapid.IntRange(0, 4).Draw(t, "entClass") {
		case 0:
			return rapid.SampledFrom([]int64{0, 1, -1, 1<<63 - 1, -1 << 63, 1 << 53, 1<<53 + 1}).Draw(t, "edge")
		default:
			return rapid.Int64().Draw(t, "entropy")
		}
	})
}

// Bytes draws a byte slice with min..max bytes; with min == 0 the empty value is nil or []byte{}.
func Bytes(min, max int) *rapid.Generator[[]byte] {
	return rapid.Custom(func(t *rapid.T) []byte {
		n := rapid.IntRange(min, max).Draw(t, "blen")
		if n == 0 {
			if rapid.Bool().Draw(t, "nilBytes") {
				return nil
			}
			return []byte{}
		}
		return rapid.SliceOfN(rapid.Byte(), n, n).Draw(t, "bytes")
	})
}

// Hash32Hex draws the hex form of a 32-byte hash (request hashes, merkle hashes).
func Hash32Hex() *rapid.Generator[string] {
	return rapid.Custom(func(t *rapid.T) string {
		return hex.EncodeToString(rapid.SliceOfN(rapid.Byte(), 32, 32).Draw(t, "hash"))
	})
}

// RewardDelegators draws a reward-delegator map admitted by NormalizeRewardDelegators (hex addresses,
// positive shares, total <= 100) with 0..max entries; the empty map is nil or an empty non-nil map.
// The returned insertion order (second result of RewardDelegatorsOrdered) lets callers rebuild the map
// with another insertion order.
func RewardDelegators(max int) *rapid.Generator[map[string]uint32] {
	return rapid.Custom(func(t *rapid.T) map[string]uint32 {
		m, _ := RewardDelegatorsOrdered(max).Draw(t, "rd").Unpack()
		return m
	})
}

// OrderedMap is a generated string-keyed map together with the key order it was filled in.
type OrderedMap[V any] struct {
	M    map[string]V
	Keys []string
}

// Unpack returns the map and the insertion order.
func (o OrderedMap[V]) Unpack() (map[string]V, []string) { return o.M, o.Keys }

// Rebuild returns an equal map filled in the given key order (a permutation of Keys).
func (o OrderedMap[V]) Rebuild(order []string) map[string]V {
	if o.M == nil {
		return nil
	}
	m := make(map[string]V, len(order))
	for _, k := range order {
		m[k] = o.M[k]
	}
	return m
}

// RewardDelegatorsOrdered is RewardDelegators that also reports the insertion order.
func RewardDelegatorsOrdered(max int) *rapid.Generator[OrderedMap[uint32]] {
	return rapid.Custom(func(t *rapid.T) OrderedMap[uint32] {
		n := rapid.IntRange(0, max).Draw(t, "ndeleg")
		if n == 0 {
			if rapid.Bool().Draw(t, "nilMap") {
				return OrderedMap[uint32]{}
			}
			return OrderedMap[uint32]{M: map[string]uint32{}}
		}
		o := OrderedMap[uint32]{M: map[string]uint32{}}
		left := uint32(100)
		for i := 0; i < n && left > 0; i++ {
			a := Address().Draw(t, "delegator").String()
			if _, dup := o.M[a]; dup {
				continue
			}
			maxShare := left - uint32(n-1-i) // leave at least 1 for each remaining entry
			if maxShare < 1 {
				maxShare = 1
			}
			sh := uint32(rapid.IntRange(1, int(maxShare)).Draw(t, "share"))
			if sh > left {
				sh = left
			}
			left -= sh
			o.M[a] = sh
			o.Keys = append(o.Keys, a)
		}
		return o
	})
}

// SortedKeys returns the keys of a string-keyed map in ascending order (never iterate a map directly in a
// check).
func SortedKeys[V any](m map[string]V) []string {
	ks := make([]string, 0, len(m))
	for k := range m {
		ks = append(ks, k)
	}
	sort.Strings(ks)
	return ks
}
