package gen

import (
	"testing"

	sdk "github.com/pokt-network/pocket-core/types"
	authTypes "github.com/pokt-network/pocket-core/x/auth/types"
	"pgregory.net/rapid"
)

// Self-check of the generators' contracts (not a property of pocket-core): every generated message is
// admitted by ValidateBasic, every generated transaction carries a signature that verifies over
// StdSignBytes, keys are a pure function of the seed, Coins are valid.
func TestGeneratorsKeepTheirContracts(t *testing.T) {
	rapid.Check(t, func(rt *rapid.T) {
		ResetCodecGlobals()
		km := AnyMsg().Draw(rt, "msg")
		if err := km.Msg.ValidateBasic(); err != nil {
			rt.Fatalf("%s fails ValidateBasic: %v\n%s", km.Kind, err, Canon(km.Msg))
		}
		tx := StdTxOf(km.Kind, km.Msg).Draw(rt, "tx")
		sb, err := authTypes.StdSignBytes(tx.ChainID, tx.StdTx.Entropy, tx.StdTx.Fee, tx.StdTx.Msg, tx.StdTx.Memo)
		if err != nil || !tx.Signer.PublicKey().VerifyBytes(sb, tx.StdTx.Signature.Signature) {
			rt.Fatalf("generated tx signature does not verify (%v)", err)
		}
		if !tx.StdTx.Fee.IsValid() {
			rt.Fatalf("invalid fee %s", Canon(tx.StdTx.Fee))
		}
		seed := Seed().Draw(rt, "seed")
		if Canon(Ed25519FromSeed(seed).Pub) != Canon(Ed25519FromSeed(seed).Pub) || Canon(Secp256k1FromSeed(seed).Priv) != Canon(Secp256k1FromSeed(seed).Priv) {
			rt.Fatalf("key derivation is not deterministic")
		}
		a := Address().Draw(rt, "addr")
		if len(a) != sdk.AddrLen {
			rt.Fatalf("address length %d", len(a))
		}
		v := Validator().Draw(rt, "validator")
		if !SemEqual(v, v) || SemEqual(v, v.ToLegacy()) {
			rt.Fatalf("Canon sanity")
		}
	})
}
