package gen

import (
	"encoding/hex"
	"fmt"

	sdk "github.com/pokt-network/pocket-core/types"
	appsTypes "github.com/pokt-network/pocket-core/x/apps/types"
	authTypes "github.com/pokt-network/pocket-core/x/auth/types"
	govTypes "github.com/pokt-network/pocket-core/x/gov/types"
	nodesTypes "github.com/pokt-network/pocket-core/x/nodes/types"
	pcTypes "github.com/pokt-network/pocket-core/x/pocketcore/types"
	"pgregory.net/rapid"
)

// MsgKind names one registered transaction message type.
type MsgKind string

const (
	KindNodesSend               MsgKind = "nodes.MsgSend"
	KindNodesStake              MsgKind = "nodes.MsgStake"
	KindNodesLegacyStake        MsgKind = "nodes.LegacyMsgStake"
	KindNodesBeginUnstake       MsgKind = "nodes.MsgBeginUnstake"
	KindNodesLegacyBeginUnstake MsgKind = "nodes.LegacyMsgBeginUnstake"
	KindNodesUnjail             MsgKind = "nodes.MsgUnjail"
	KindNodesLegacyUnjail       MsgKind = "nodes.LegacyMsgUnjail"
	KindAppsStake               MsgKind = "apps.MsgStake"
	KindAppsBeginUnstake        MsgKind = "apps.MsgBeginUnstake"
	KindAppsUnjail              MsgKind = "apps.MsgUnjail"
	KindGovChangeParam          MsgKind = "gov.MsgChangeParam"
	KindGovDAOTransfer          MsgKind = "gov.MsgDAOTransfer"
	KindGovUpgrade              MsgKind = "gov.MsgUpgrade"
	KindPocketClaim             MsgKind = "pocketcore.MsgClaim"
	KindPocketProofRelay        MsgKind = "pocketcore.MsgProof/relay"
	KindPocketProofChallenge    MsgKind = "pocketcore.MsgProof/challenge"
)

// MsgKinds lists every message kind MsgOf can produce, in a fixed order.
func MsgKinds() []MsgKind {
	return []MsgKind{KindNodesSend, KindNodesStake, KindNodesLegacyStake, KindNodesBeginUnstake, KindNodesLegacyBeginUnstake,
		KindNodesUnjail, KindNodesLegacyUnjail, KindAppsStake, KindAppsBeginUnstake, KindAppsUnjail, KindGovChangeParam,
		KindGovDAOTransfer, KindGovUpgrade, KindPocketClaim, KindPocketProofRelay, KindPocketProofChallenge}
}

// AminoBinaryEncodable reports whether the legacy amino *binary* codec can encode the kind at all:
// go-amino rejects Go maps ("unsupported type map"), so the non-custodial nodes.MsgStake (RewardDelegators)
// only exists in protobuf and JSON form. Every other kind has all three encodings.
func AminoBinaryEncodable(k MsgKind) bool { return k != KindNodesStake }

// MsgOf draws a message of the given kind as the pointer type registered as sdk.ProtoMsg.
// All results pass ValidateBasic except where the doc comment of the specific generator says otherwise.
func MsgOf(k MsgKind) *rapid.Generator[sdk.ProtoMsg] {
	return rapid.Custom(func(t *rapid.T) sdk.ProtoMsg {
		switch k {
		case KindNodesSend:
			return MsgSend().Draw(t, "msg")
		case KindNodesStake:
			return NodesMsgStake().Draw(t, "msg")
		case KindNodesLegacyStake:
			return NodesLegacyMsgStake().Draw(t, "msg")
		case KindNodesBeginUnstake:
			return &nodesTypes.MsgBeginUnstake{Address: Address().Draw(t, "val"), Signer: Address().Draw(t, "signer")}
		case KindNodesLegacyBeginUnstake:
			return &nodesTypes.LegacyMsgBeginUnstake{Address: Address().Draw(t, "val")}
		case KindNodesUnjail:
			return &nodesTypes.MsgUnjail{ValidatorAddr: Address().Draw(t, "val"), Signer: Address().Draw(t, "signer")}
		case KindNodesLegacyUnjail:
			return &nodesTypes.LegacyMsgUnjail{ValidatorAddr: Address().Draw(t, "val")}
		case KindAppsStake:
			return AppsMsgStake().Draw(t, "msg")
		case KindAppsBeginUnstake:
			return &appsTypes.MsgBeginUnstake{Address: Address().Draw(t, "app")}
		case KindAppsUnjail:
			return &appsTypes.MsgUnjail{AppAddr: Address().Draw(t, "app")}
		case KindGovChangeParam:
			return MsgChangeParam().Draw(t, "msg")
		case KindGovDAOTransfer:
			return MsgDAOTransfer().Draw(t, "msg")
		case KindGovUpgrade:
			return MsgUpgrade().Draw(t, "msg")
		case KindPocketClaim:
			m := MsgClaim(false).Draw(t, "msg")
			return &m
		case KindPocketProofRelay:
			return MsgProof(false).Draw(t, "msg")
		case KindPocketProofChallenge:
			return MsgProof(true).Draw(t, "msg")
		}
		panic("unknown msg kind " + string(k))
	})
}

// KindedMsg is a generated message with its kind.
type KindedMsg struct {
	Kind MsgKind
	Msg  sdk.ProtoMsg
}

// AnyMsg draws a message of a uniformly chosen kind.
func AnyMsg() *rapid.Generator[KindedMsg] {
	return rapid.Custom(func(t *rapid.T) KindedMsg {
		k := rapid.SampledFrom(MsgKinds()).Draw(t, "kind")
		return KindedMsg{Kind: k, Msg: MsgOf(k).Draw(t, "msg")}
	})
}

// MsgSend draws a nodes MsgSend (positive amount, 20-byte addresses).
func MsgSend() *rapid.Generator[*nodesTypes.MsgSend] {
	return rapid.Custom(func(t *rapid.T) *nodesTypes.MsgSend {
		return &nodesTypes.MsgSend{FromAddress: Address().Draw(t, "from"), ToAddress: Address().Draw(t, "to"), Amount: PosInt().Draw(t, "amount")}
	})
}

// NodesMsgStake draws the non-custodial nodes MsgStake: any public key kind, 1-20 chains, positive value,
// valid service URL, optional output address, optional reward delegators (nil, empty or up to 5 entries).
func NodesMsgStake() *rapid.Generator[*nodesTypes.MsgStake] {
	return rapid.Custom(func(t *rapid.T) *nodesTypes.MsgStake {
		return &nodesTypes.MsgStake{
			PublicKey:        PublicKey().Draw(t, "pk"),
			Chains:           Chains(1, 20).Draw(t, "chains"),
			Value:            PosInt().Draw(t, "value"),
			ServiceUrl:       ServiceURL().Draw(t, "url"),
			Output:           OptAddress().Draw(t, "output"),
			RewardDelegators: RewardDelegators(5).Draw(t, "delegators"),
		}
	})
}

// NodesLegacyMsgStake draws the pre-non-custodial stake message.
func NodesLegacyMsgStake() *rapid.Generator[*nodesTypes.LegacyMsgStake] {
	return rapid.Custom(func(t *rapid.T) *nodesTypes.LegacyMsgStake {
		return &nodesTypes.LegacyMsgStake{
			PublicKey:  PublicKey().Draw(t, "pk"),
			Chains:     Chains(1, 20).Draw(t, "chains"),
			Value:      PosInt().Draw(t, "value"),
			ServiceUrl: ServiceURL().Draw(t, "url"),
		}
	})
}

// AppsMsgStake draws an application stake message; one time in six the AppTransfer form (zero value, no
// chains) that IsValidTransfer admits.
func AppsMsgStake() *rapid.Generator[*appsTypes.MsgStake] {
	return rapid.Custom(func(t *rapid.T) *appsTypes.MsgStake {
		if rapid.IntRange(0, 5).Draw(t, "transfer") == 0 {
			return &appsTypes.MsgStake{PubKey: PublicKey().Draw(t, "pk"), Chains: Chains(0, 0).Draw(t, "chains"), Value: sdk.ZeroInt()}
		}
		return &appsTypes.MsgStake{PubKey: PublicKey().Draw(t, "pk"), Chains: Chains(1, 20).Draw(t, "chains"), Value: PosInt().Draw(t, "value")}
	})
}

// ParamValue is a governance parameter key with a Go value of the type registered for it.
type ParamValue struct {
	Key   string // ACL key "<subspace>/<param>"
	Value any
}

// GovParamValue draws a (key, value) pair covering every value *type* used by module parameters:
// int64, uint64, bool, string, time.Duration, sdk.BigDec, []string, map[string]int64, sdk.Address,
// gov ACL, gov Upgrade and auth FeeMultipliers.
func GovParamValue() *rapid.Generator[ParamValue] {
	return rapid.Custom(func(t *rapid.T) ParamValue {
		switch rapid.IntRange(0, 11).Draw(t, "paramType") {
		case 0:
			return ParamValue{"pos/StakeMinimum", rapid.Int64Range(0, 1<<62).Draw(t, "i64")}
		case 1:
			return ParamValue{"auth/MaxMemoCharacters", rapid.Uint64().Draw(t, "u64")}
		case 2:
			return ParamValue{"application/ParticipationRateOn", rapid.Bool().Draw(t, "b")}
		case 3:
			return ParamValue{"pos/StakeDenom", Denom().Draw(t, "s")}
		case 4:
			return ParamValue{"pos/UnstakingTime", Duration().Draw(t, "dur")}
		case 5:
			return ParamValue{"pos/SlashFractionDowntime", Dec().Draw(t, "dec")}
		case 6:
			return ParamValue{"pocketcore/SupportedBlockchains", Chains(0, 20).Draw(t, "chains")}
		case 7:
			return ParamValue{"pos/RelaysToTokensMultiplierMap", Int64Map(5).Draw(t, "rttm").M}
		case 8:
			return ParamValue{"gov/daoOwner", Address().Draw(t, "owner")}
		case 9:
			return ParamValue{"gov/acl", ACL(6).Draw(t, "acl")}
		case 10:
			return ParamValue{"gov/upgrade", Upgrade().Draw(t, "upgrade")}
		default:
			return ParamValue{"auth/FeeMultipliers", FeeMultipliers().Draw(t, "fm")}
		}
	})
}

// MsgChangeParam draws a governance change-param message whose ParamVal is the codec JSON of a typed
// parameter value, built the way gov.ChangeParamsTx builds it.
func MsgChangeParam() *rapid.Generator[*govTypes.MsgChangeParam] {
	return rapid.Custom(func(t *rapid.T) *govTypes.MsgChangeParam {
		pv := GovParamValue().Draw(t, "param")
		bz, err := Codec().MarshalJSON(pv.Value)
		if err != nil {
			panic(fmt.Sprintf("param value %T not JSON encodable: %v", pv.Value, err))
		}
		return &govTypes.MsgChangeParam{FromAddress: Address().Draw(t, "from"), ParamKey: pv.Key, ParamVal: bz}
	})
}

// MsgDAOTransfer draws a DAO transfer or burn (burns may leave ToAddress nil). The amount stays within
// int64: MsgDAOTransfer.ValidateBasic calls Amount.Int64(), which panics ("Int64() out of bound") above it.
func MsgDAOTransfer() *rapid.Generator[*govTypes.MsgDAOTransfer] {
	return rapid.Custom(func(t *rapid.T) *govTypes.MsgDAOTransfer {
		amount := sdk.NewInt(rapid.Int64Range(1, 1<<62).Draw(t, "amount"))
		if rapid.IntRange(0, 7).Draw(t, "maxAmount") == 0 {
			amount = sdk.NewInt(1<<63 - 1)
		}
		if rapid.Bool().Draw(t, "burn") {
			return &govTypes.MsgDAOTransfer{FromAddress: Address().Draw(t, "from"), ToAddress: OptAddress().Draw(t, "to"),
				Amount: amount, Action: govTypes.DAOBurnString}
		}
		return &govTypes.MsgDAOTransfer{FromAddress: Address().Draw(t, "from"), ToAddress: Address().Draw(t, "to"),
			Amount: amount, Action: govTypes.DAOTransferString}
	})
}

// Upgrade draws a gov Upgrade: height >= 1, a semantic version, optional OldUpgradeHeight and features
// ("KEY:height" strings).
func Upgrade() *rapid.Generator[govTypes.Upgrade] {
	return rapid.Custom(func(t *rapid.T) govTypes.Upgrade {
		u := govTypes.Upgrade{
			Height:  rapid.Int64Range(1, 1<<40).Draw(t, "height"),
			Version: fmt.Sprintf("%d.%d.%d", rapid.IntRange(0, 3).Draw(t, "maj"), rapid.IntRange(0, 20).Draw(t, "min"), rapid.IntRange(0, 20).Draw(t, "pat")),
		}
		if rapid.Bool().Draw(t, "hasOld") {
			u.OldUpgradeHeight = rapid.Int64Range(1, 1<<30).Draw(t, "old")
		}
		switch rapid.IntRange(0, 2).Draw(t, "featKind") {
		case 0: // nil
		case 1:
			u.Features = []string{}
		default:
			n := rapid.IntRange(1, 4).Draw(t, "nfeat")
			for i := 0; i < n; i++ {
				u.Features = append(u.Features, fmt.Sprintf("%s:%d", rapid.SampledFrom([]string{"NCUST", "MAXCH", "REDUP", "RSCAL", "BLOCK", "OEDIT"}).Draw(t, "fk"),
					rapid.Int64Range(1, 1<<30).Draw(t, "fh")))
			}
		}
		return u
	})
}

// MsgUpgrade draws a governance upgrade message.
func MsgUpgrade() *rapid.Generator[*govTypes.MsgUpgrade] {
	return rapid.Custom(func(t *rapid.T) *govTypes.MsgUpgrade {
		return &govTypes.MsgUpgrade{Address: Address().Draw(t, "from"), Upgrade: Upgrade().Draw(t, "upgrade")}
	})
}

// ACL draws a governance ACL (ordered key/owner pairs; keys from the real parameter key space, possibly
// repeated) with 0..max entries; the empty ACL is nil or empty.
func ACL(max int) *rapid.Generator[govTypes.ACL] {
	keys := []string{"pos/StakeMinimum", "pos/MaxValidators", "application/MaxApplications", "pocketcore/SessionNodeCount",
		"gov/acl", "gov/daoOwner", "gov/upgrade", "auth/MaxMemoCharacters", "auth/FeeMultipliers", "pos/RelaysToTokensMultiplierMap"}
	return rapid.Custom(func(t *rapid.T) govTypes.ACL {
		n := rapid.IntRange(0, max).Draw(t, "nacl")
		if n == 0 {
			if rapid.Bool().Draw(t, "nilACL") {
				return nil
			}
			return govTypes.ACL{}
		}
		out := make(govTypes.ACL, n)
		for i := range out {
			out[i] = govTypes.ACLPair{Key: rapid.SampledFrom(keys).Draw(t, "aclKey"), Addr: Address().Draw(t, "aclAddr")}
		}
		return out
	})
}

// FeeMultipliers draws the auth fee multiplier parameter.
func FeeMultipliers() *rapid.Generator[authTypes.FeeMultipliers] {
	types := []string{"send", "stake_validator", "app_stake", "claim", "proof", "dao_tranfer", "change_param", "upgrade"}
	return rapid.Custom(func(t *rapid.T) authTypes.FeeMultipliers {
		fm := authTypes.FeeMultipliers{Default: rapid.Int64Range(0, 1000).Draw(t, "default")}
		n := rapid.IntRange(0, 4).Draw(t, "nfm")
		if n == 0 && rapid.Bool().Draw(t, "emptyFM") {
			fm.FeeMultis = []authTypes.FeeMultiplier{}
		}
		for i := 0; i < n; i++ {
			fm.FeeMultis = append(fm.FeeMultis, authTypes.FeeMultiplier{Key: rapid.SampledFrom(types).Draw(t, "fmKey"), Multiplier: rapid.Int64Range(0, 1<<40).Draw(t, "mult")})
		}
		return fm
	})
}

// Int64Map draws a string→int64 map keyed by chain ids (RelaysToTokensMultiplierMap) with its insertion order.
func Int64Map(max int) *rapid.Generator[OrderedMap[int64]] {
	return rapid.Custom(func(t *rapid.T) OrderedMap[int64] {
		n := rapid.IntRange(0, max).Draw(t, "nmap")
		if n == 0 {
			if rapid.Bool().Draw(t, "nilMap") {
				return OrderedMap[int64]{}
			}
			return OrderedMap[int64]{M: map[string]int64{}}
		}
		o := OrderedMap[int64]{M: map[string]int64{}}
		for i := 0; i < n; i++ {
			k := Chain().Draw(t, "mapKey")
			if _, dup := o.M[k]; dup {
				continue
			}
			o.M[k] = rapid.Int64Range(0, 1<<62).Draw(t, "mapVal")
			o.Keys = append(o.Keys, k)
		}
		return o
	})
}

// ---- pocketcore ----

// SessionHeader draws a session header with a real ed25519 application key, a chain id and height >= 1.
func SessionHeader() *rapid.Generator[pcTypes.SessionHeader] {
	return rapid.Custom(func(t *rapid.T) pcTypes.SessionHeader {
		return pcTypes.SessionHeader{
			ApplicationPubKey:  Ed25519Key().Draw(t, "appKey").Pub.RawString(),
			Chain:              Chain().Draw(t, "chain"),
			SessionBlockHeight: rapid.Int64Range(1, 1<<40).Draw(t, "sessionHeight"),
		}
	})
}

// HashRange draws a merkle hash range with a 32-byte hash and lower < upper (lower forced to 0 when root).
func HashRange(root bool) *rapid.Generator[pcTypes.HashRange] {
	return rapid.Custom(func(t *rapid.T) pcTypes.HashRange {
		lower := uint64(0)
		if !root {
			lower = rapid.Uint64Range(0, 1<<62).Draw(t, "lower")
		}
		upper := lower + 1 + rapid.Uint64Range(0, 1<<62).Draw(t, "width")
		if rapid.IntRange(0, 15).Draw(t, "maxUpper") == 0 {
			upper = ^uint64(0)
		}
		return pcTypes.HashRange{Hash: rapid.SliceOfN(rapid.Byte(), 32, 32).Draw(t, "merkleHash"), Range: pcTypes.Range{Lower: lower, Upper: upper}}
	})
}

// MsgClaim draws a claim. stored=false: the transaction form ValidateBasic admits (ExpirationHeight 0);
// stored=true: the form the keeper persists (ExpirationHeight > 0).
func MsgClaim(stored bool) *rapid.Generator[pcTypes.MsgClaim] {
	return rapid.Custom(func(t *rapid.T) pcTypes.MsgClaim {
		c := pcTypes.MsgClaim{
			SessionHeader: SessionHeader().Draw(t, "header"),
			MerkleRoot:    HashRange(true).Draw(t, "root"),
			TotalProofs:   rapid.Int64Range(5, 1<<40).Draw(t, "totalProofs"),
			FromAddress:   Address().Draw(t, "from"),
			EvidenceType:  rapid.SampledFrom([]pcTypes.EvidenceType{pcTypes.RelayEvidence, pcTypes.ChallengeEvidence}).Draw(t, "evType"),
		}
		if stored {
			c.ExpirationHeight = rapid.Int64Range(1, 1<<40).Draw(t, "expiration")
		}
		return c
	})
}

// RelayProofParties are the keys behind a generated relay proof.
type RelayProofParties struct {
	App, Client, Servicer Key
}

// RelayProofFor builds a relay proof that passes RelayProof.ValidateBasic: the AAT is signed by the app key,
// the proof by the client key.
func RelayProofFor(p RelayProofParties, chain string, sessionHeight, entropy int64, requestHash string) pcTypes.RelayProof {
	aat := pcTypes.AAT{Version: "0.0.1", ApplicationPublicKey: p.App.Pub.RawString(), ClientPublicKey: p.Client.Pub.RawString()}
	aat.ApplicationSignature = hex.EncodeToString(p.App.Sign(aat.Hash()))
	rp := pcTypes.RelayProof{RequestHash: requestHash, Entropy: entropy, SessionBlockHeight: sessionHeight,
		ServicerPubKey: p.Servicer.Pub.RawString(), Blockchain: chain, Token: aat}
	rp.Signature = hex.EncodeToString(p.Client.Sign(rp.Hash()))
	return rp
}

// RelayProof draws a relay proof that passes ValidateBasic (real signatures from generated ed25519 keys).
func RelayProof() *rapid.Generator[pcTypes.RelayProof] {
	return rapid.Custom(func(t *rapid.T) pcTypes.RelayProof {
		p := RelayProofParties{App: Ed25519Key().Draw(t, "app"), Client: Ed25519Key().Draw(t, "client"), Servicer: Ed25519Key().Draw(t, "servicer")}
		return RelayProofFor(p, Chain().Draw(t, "chain"), rapid.Int64Range(1, 1<<40).Draw(t, "sessionHeight"),
			rapid.Int64Range(0, 1<<62).Draw(t, "entropy"), Hash32Hex().Draw(t, "requestHash"))
	})
}

// RelayResponseFor builds a relay response signed by the servicer key of the proof.
func RelayResponseFor(servicer Key, proof pcTypes.RelayProof, payload string) pcTypes.RelayResponse {
	rr := pcTypes.RelayResponse{Response: payload, Proof: proof}
	rr.Signature = hex.EncodeToString(servicer.Sign(rr.Hash()))
	return rr
}

// ChallengeProof draws a ChallengeProofInvalidData that passes ValidateBasic: two agreeing majority
// responses and one dissenting minority response from three distinct servicers over the same request.
func ChallengeProof() *rapid.Generator[pcTypes.ChallengeProofInvalidData] {
	return rapid.Custom(func(t *rapid.T) pcTypes.ChallengeProofInvalidData {
		app, client := Ed25519Key().Draw(t, "app"), Ed25519Key().Draw(t, "client")
		chain := Chain().Draw(t, "chain")
		h := rapid.Int64Range(1, 1<<40).Draw(t, "sessionHeight")
		req := Hash32Hex().Draw(t, "requestHash")
		base := rapid.SliceOfN(rapid.Byte(), 8, 8).Draw(t, "servicerBase")
		var rs [3]pcTypes.RelayResponse
		for i := 0; i < 3; i++ {
			sv := Ed25519FromSeed(append(append([]byte{}, base...), byte(i)))
			payload := "{\"result\":\"" + Text(6).Draw(t, "payload") + "\"}"
			if i == 1 {
				payload = rs[0].Response
			}
			if i == 2 && payload == rs[0].Response {
				payload += " "
			}
			rp := RelayProofFor(RelayProofParties{App: app, Client: client, Servicer: sv}, chain, h, rapid.Int64Range(0, 1<<62).Draw(t, "entropy"), req)
			rs[i] = RelayResponseFor(sv, rp, payload)
		}
		return pcTypes.ChallengeProofInvalidData{MajorityResponses: []pcTypes.RelayResponse{rs[0], rs[1]}, MinorityResponse: rs[2],
			ReporterAddress: Address().Draw(t, "reporter")}
	})
}

// MerkleProof draws a merkle proof with 3..12 sibling hash ranges and a valid target range.
func MerkleProof() *rapid.Generator[pcTypes.MerkleProof] {
	return rapid.Custom(func(t *rapid.T) pcTypes.MerkleProof {
		n := rapid.IntRange(3, 12).Draw(t, "levels")
		mp := pcTypes.MerkleProof{TargetIndex: rapid.Int64Range(0, 1<<40).Draw(t, "index"), Target: HashRange(false).Draw(t, "target")}
		for i := 0; i < n; i++ {
			mp.HashRanges = append(mp.HashRanges, HashRange(false).Draw(t, "sibling"))
		}
		return mp
	})
}

// MsgProof draws a proof message with a relay leaf (challenge=false) or a challenge leaf (challenge=true).
func MsgProof(challenge bool) *rapid.Generator[*pcTypes.MsgProof] {
	return rapid.Custom(func(t *rapid.T) *pcTypes.MsgProof {
		m := &pcTypes.MsgProof{MerkleProof: MerkleProof().Draw(t, "merkleProof")}
		if challenge {
			m.Leaf = ChallengeProof().Draw(t, "leaf")
			m.EvidenceType = pcTypes.ChallengeEvidence
		} else {
			m.Leaf = RelayProof().Draw(t, "leaf")
			m.EvidenceType = pcTypes.RelayEvidence
		}
		return m
	})
}
