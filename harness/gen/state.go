package gen

import (
	sdk "github.com/pokt-network/pocket-core/types"
	appsTypes "github.com/pokt-network/pocket-core/x/apps/types"
	authTypes "github.com/pokt-network/pocket-core/x/auth/types"
	govTypes "github.com/pokt-network/pocket-core/x/gov/types"
	nodesTypes "github.com/pokt-network/pocket-core/x/nodes/types"
	pcTypes "github.com/pokt-network/pocket-core/x/pocketcore/types"
	"github.com/willf/bloom"
	"pgregory.net/rapid"
)

// BaseAccount draws a base account: address, 0-3 coins, public key nil (fresh account) or of any kind.
// When a key is present the address is the key's address two times in three (as after the first tx).
func BaseAccount() *rapid.Generator[*authTypes.BaseAccount] {
	return rapid.Custom(func(t *rapid.T) *authTypes.BaseAccount {
		acc := &authTypes.BaseAccount{Coins: Coins(3).Draw(t, "coins")}
		acc.PubKey = OptPublicKey().Draw(t, "pubkey")
		if acc.PubKey != nil && rapid.IntRange(0, 2).Draw(t, "ownAddr") > 0 {
			acc.Address = sdk.Address(acc.PubKey.Address())
		} else {
			acc.Address = Address().Draw(t, "address")
		}
		return acc
	})
}

// ModuleAccountNames are the module accounts the application registers.
var ModuleAccountNames = []string{authTypes.FeeCollectorName, nodesTypes.StakedPoolName, appsTypes.StakedPoolName, govTypes.DAOAccountName,
	nodesTypes.ModuleName, appsTypes.ModuleName}

// ModuleAccount draws a module account with a registered module name, its derived address, 0-3 coins and a
// permission list (nil, empty, or a subset of minter/burner/staking). The public key is always nil.
func ModuleAccount() *rapid.Generator[*authTypes.ModuleAccount] {
	return rapid.Custom(func(t *rapid.T) *authTypes.ModuleAccount {
		name := rapid.SampledFrom(ModuleAccountNames).Draw(t, "module")
		ba := authTypes.NewBaseAccountWithAddress(authTypes.NewModuleAddress(name))
		ba.Coins = Coins(3).Draw(t, "coins")
		ma := &authTypes.ModuleAccount{BaseAccount: &ba, Name: name}
		switch rapid.IntRange(0, 2).Draw(t, "permKind") {
		case 0:
		case 1:
			ma.Permissions = []string{}
		default:
			for _, p := range []string{authTypes.Minter, authTypes.Burner, authTypes.Staking} {
				if rapid.Bool().Draw(t, "perm") {
					ma.Permissions = append(ma.Permissions, p)
				}
			}
		}
		return ma
	})
}

// StakeStatus draws one of Unstaked, Unstaking, Staked.
func StakeStatus() *rapid.Generator[sdk.StakeStatus] {
	return rapid.SampledFrom([]sdk.StakeStatus{sdk.Unstaked, sdk.Unstaking, sdk.Staked})
}

// Validator draws a (non-custodial era) validator. Key kind: ed25519 (3 in 4) or secp256k1; the address is
// the key's address; output address and reward delegators are optional.
func Validator() *rapid.Generator[nodesTypes.Validator] {
	return rapid.Custom(func(t *rapid.T) nodesTypes.Validator {
		pk := AnyKey().Draw(t, "valKey").Pub
		return nodesTypes.Validator{
			Address:                 sdk.Address(pk.Address()),
			PublicKey:               pk,
			Jailed:                  rapid.Bool().Draw(t, "jailed"),
			Status:                  StakeStatus().Draw(t, "status"),
			Chains:                  Chains(0, 20).Draw(t, "chains"),
			ServiceURL:              ServiceURL().Draw(t, "url"),
			StakedTokens:            NonNegInt().Draw(t, "tokens"),
			UnstakingCompletionTime: Time().Draw(t, "unstakingTime"),
			OutputAddress:           OptAddress().Draw(t, "output"),
			RewardDelegators:        RewardDelegators(5).Draw(t, "delegators"),
		}
	})
}

// LegacyValidator draws a pre-non-custodial validator (no output address, no delegators).
func LegacyValidator() *rapid.Generator[nodesTypes.LegacyValidator] {
	return rapid.Custom(func(t *rapid.T) nodesTypes.LegacyValidator {
		v := Validator().Draw(t, "validator")
		return v.ToLegacy()
	})
}

// Application draws an application; MaxRelays is sometimes the zero value (never computed yet).
func Application() *rapid.Generator[appsTypes.Application] {
	return rapid.Custom(func(t *rapid.T) appsTypes.Application {
		pk := PublicKey().Draw(t, "pk")
		a := appsTypes.Application{
			Address:                 sdk.Address(pk.Address()),
			PublicKey:               pk,
			Jailed:                  rapid.Bool().Draw(t, "jailed"),
			Status:                  StakeStatus().Draw(t, "status"),
			Chains:                  Chains(0, 20).Draw(t, "chains"),
			StakedTokens:            NonNegInt().Draw(t, "tokens"),
			UnstakingCompletionTime: Time().Draw(t, "unstakingTime"),
		}
		if rapid.IntRange(0, 3).Draw(t, "hasMaxRelays") > 0 {
			a.MaxRelays = NonNegInt().Draw(t, "maxRelays")
		}
		return a
	})
}

// SigningInfo draws a validator signing info record.
func SigningInfo() *rapid.Generator[nodesTypes.ValidatorSigningInfo] {
	return rapid.Custom(func(t *rapid.T) nodesTypes.ValidatorSigningInfo {
		return nodesTypes.ValidatorSigningInfo{
			Address:             Address().Draw(t, "address"),
			StartHeight:         rapid.Int64Range(0, 1<<40).Draw(t, "start"),
			Index:               rapid.Int64Range(0, 1<<40).Draw(t, "index"),
			JailedUntil:         Time().Draw(t, "jailedUntil"),
			MissedBlocksCounter: rapid.Int64Range(0, 1<<30).Draw(t, "missed"),
			JailedBlocksCounter: rapid.Int64Range(0, 1<<30).Draw(t, "jailedBlocks"),
		}
	})
}

// Supply draws the auth supply record.
func Supply() *rapid.Generator[authTypes.Supply] {
	return rapid.Custom(func(t *rapid.T) authTypes.Supply { return authTypes.Supply{Total: Coins(3).Draw(t, "total")} })
}

// Evidence draws a pocketcore evidence object the way the cache builds it: a bloom filter sized with
// bloom.NewWithEstimates(maxRelays, .01), and 0-4 relay proofs (or 0-2 challenge proofs) added through
// AddProof, so NumOfProofs and the filter agree with the proof list.
func Evidence() *rapid.Generator[pcTypes.Evidence] {
	return rapid.Custom(func(t *rapid.T) pcTypes.Evidence {
		max := rapid.IntRange(1, 2000).Draw(t, "bloomMax")
		e := pcTypes.Evidence{Bloom: *bloom.NewWithEstimates(uint(max), .01), SessionHeader: SessionHeader().Draw(t, "header")}
		if rapid.IntRange(0, 3).Draw(t, "challenge") == 0 {
			e.EvidenceType = pcTypes.ChallengeEvidence
			n := rapid.IntRange(0, 2).Draw(t, "nproofs")
			for i := 0; i < n; i++ {
				e.AddProof(ChallengeProof().Draw(t, "proof"))
			}
		} else {
			e.EvidenceType = pcTypes.RelayEvidence
			n := rapid.IntRange(0, 4).Draw(t, "nproofs")
			for i := 0; i < n; i++ {
				e.AddProof(RelayProof().Draw(t, "proof"))
			}
		}
		return e
	})
}

// NodesParams draws the pos module parameters (all 21 fields; the RTTM map may be nil, empty or populated).
func NodesParams() *rapid.Generator[nodesTypes.Params] {
	return rapid.Custom(func(t *rapid.T) nodesTypes.Params {
		i64 := func(l string) int64 { return rapid.Int64Range(0, 1<<62).Draw(t, l) }
		return nodesTypes.Params{
			RelaysToTokensMultiplier:             i64("rttm"),
			RelaysToTokensMultiplierMap:          Int64Map(5).Draw(t, "rttmMap").M,
			UnstakingTime:                        Duration().Draw(t, "unstakingTime"),
			MaxValidators:                        i64("maxValidators"),
			StakeDenom:                           Denom().Draw(t, "denom"),
			StakeMinimum:                         i64("stakeMin"),
			SessionBlockFrequency:                i64("sessionBlocks"),
			DAOAllocation:                        rapid.Int64Range(0, 100).Draw(t, "dao"),
			ProposerAllocation:                   rapid.Int64Range(0, 100).Draw(t, "proposer"),
			MaximumChains:                        i64("maxChains"),
			MaxJailedBlocks:                      i64("maxJailed"),
			MaxEvidenceAge:                       Duration().Draw(t, "maxEvidenceAge"),
			SignedBlocksWindow:                   i64("window"),
			MinSignedPerWindow:                   Dec().Draw(t, "minSigned"),
			DowntimeJailDuration:                 Duration().Draw(t, "downtimeJail"),
			SlashFractionDoubleSign:              Dec().Draw(t, "slashDS"),
			SlashFractionDowntime:                Dec().Draw(t, "slashDT"),
			ServicerStakeFloorMultiplier:         i64("floorMult"),
			ServicerStakeWeightMultiplier:        Dec().Draw(t, "weightMult"),
			ServicerStakeWeightCeiling:           i64("ceiling"),
			ServicerStakeFloorMultiplierExponent: Dec().Draw(t, "floorExp"),
		}
	})
}

// AppsParams draws the application module parameters.
func AppsParams() *rapid.Generator[appsTypes.Params] {
	return rapid.Custom(func(t *rapid.T) appsTypes.Params {
		i64 := func(l string) int64 { return rapid.Int64Range(0, 1<<62).Draw(t, l) }
		return appsTypes.Params{UnstakingTime: Duration().Draw(t, "unstakingTime"), MaxApplications: i64("maxApps"), AppStakeMin: i64("stakeMin"),
			BaseRelaysPerPOKT: i64("baseRelays"), StabilityAdjustment: i64("stability"), ParticipationRateOn: rapid.Bool().Draw(t, "participation"),
			MaxChains: i64("maxChains")}
	})
}

// PocketParams draws the pocketcore module parameters.
func PocketParams() *rapid.Generator[pcTypes.Params] {
	return rapid.Custom(func(t *rapid.T) pcTypes.Params {
		i64 := func(l string) int64 { return rapid.Int64Range(0, 1<<62).Draw(t, l) }
		return pcTypes.Params{SessionNodeCount: rapid.Int64Range(1, 100).Draw(t, "sessionNodes"), ClaimSubmissionWindow: i64("claimWindow"),
			SupportedBlockchains: Chains(0, 20).Draw(t, "supported"), ClaimExpiration: i64("claimExpiration"),
			ReplayAttackBurnMultiplier: i64("replayBurn"), MinimumNumberOfProofs: i64("minProofs"),
			BlockByteSize: rapid.SampledFrom([]int64{0, 4000000, 8000000}).Draw(t, "blockBytes")}
	})
}

// AuthParams draws the auth module parameters.
func AuthParams() *rapid.Generator[authTypes.Params] {
	return rapid.Custom(func(t *rapid.T) authTypes.Params {
		return authTypes.Params{MaxMemoCharacters: rapid.Uint64().Draw(t, "maxMemo"), TxSigLimit: rapid.Uint64Range(0, 100).Draw(t, "sigLimit"),
			FeeMultiplier: FeeMultipliers().Draw(t, "feeMultipliers")}
	})
}

// GovParams draws the gov module parameters (ACL, DAO owner, upgrade).
func GovParams() *rapid.Generator[govTypes.Params] {
	return rapid.Custom(func(t *rapid.T) govTypes.Params {
		return govTypes.Params{ACL: ACL(6).Draw(t, "acl"), DAOOwner: OptAddress().Draw(t, "daoOwner"), Upgrade: Upgrade().Draw(t, "upgrade")}
	})
}
