package gen

import (
	"github.com/pokt-network/pocket-core/crypto"
	sdk "github.com/pokt-network/pocket-core/types"
	authTypes "github.com/pokt-network/pocket-core/x/auth/types"
	"pgregory.net/rapid"
)

// Tx is a generated, correctly signed standard transaction with everything needed to re-derive it.
type Tx struct {
	StdTx   authTypes.StdTx
	Kind    MsgKind
	ChainID string
	Signer  Signer // the key (single or multisig) whose signature is in StdTx.Signature
}

// SignTx builds the StdTx the way auth's TxBuilder does: sign StdSignBytes(chainID, entropy, fee, msg, memo)
// with signer and attach signer's public key.
func SignTx(chainID string, msg sdk.ProtoMsg, fee sdk.Coins, memo string, entropy int64, signer Signer) authTypes.StdTx {
	sb, err := authTypes.StdSignBytes(chainID, entropy, fee, msg, memo)
	if err != nil {
		panic(err)
	}
	sig := authTypes.StdSignature{PublicKey: signer.PublicKey(), Signature: signer.Sign(sb)}
	return authTypes.StdTx{Msg: msg, Fee: fee, Signature: sig, Memo: memo, Entropy: entropy}
}

// StdTxOf draws a signed StdTx around msg: fee, memo (0-40 pieces, unicode and JSON-hostile characters
// included), entropy, and a single-key (3 in 4) or multisig (1 in 4) signature. The signer is unrelated to
// the message's GetSigners (codec and signature checks do not need the relation; ante-handler checks
// should build their own transactions with SignTx).
func StdTxOf(kind MsgKind, msg sdk.ProtoMsg) *rapid.Generator[Tx] {
	return rapid.Custom(func(t *rapid.T) Tx {
		chainID := ChainID().Draw(t, "chainID")
		signer := AnySigner().Draw(t, "signer")
		tx := SignTx(chainID, msg, Fee().Draw(t, "fee"), Text(40).Draw(t, "memo"), Entropy().Draw(t, "entropy"), signer)
		return Tx{StdTx: tx, Kind: kind, ChainID: chainID, Signer: signer}
	})
}

// AnyStdTx draws a signed StdTx around a message of a uniformly chosen kind.
func AnyStdTx() *rapid.Generator[Tx] {
	return rapid.Custom(func(t *rapid.T) Tx {
		km := AnyMsg().Draw(t, "msg")
		return StdTxOf(km.Kind, km.Msg).Draw(t, "tx")
	})
}

// IsMultiSig reports whether pk is a multi-signature public key.
func IsMultiSig(pk crypto.PublicKey) bool {
	_, ok := pk.(crypto.PublicKeyMultiSig)
	return ok
}
