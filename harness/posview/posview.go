// Package posview reads the complete proof-of-stake state of a simulated node (verif/harness/chain) by RAW
// prefix iteration of the nodes ("pos") and auth stores, using only the module's exported key prefixes and
// the application codec — never the keepers' cached getters, whose consistency with the indexes is what
// several properties check. It contains no oracle.
//
// Read works at any point: after Commit it shows the committed state, between BeginBlock/DeliverTx/EndBlock
// it shows the block's writes so far (deliver-state handlers write straight into the working tree).
package posview

import (
	"encoding/binary"
	"encoding/hex"
	"fmt"
	"sort"
	"time"

	"github.com/pokt-network/pocket-core/app"
	sdk "github.com/pokt-network/pocket-core/types"
	appsTypes "github.com/pokt-network/pocket-core/x/apps/types"
	"github.com/pokt-network/pocket-core/x/auth"
	authTypes "github.com/pokt-network/pocket-core/x/auth/types"
	govTypes "github.com/pokt-network/pocket-core/x/gov/types"
	nodesTypes "github.com/pokt-network/pocket-core/x/nodes/types"

	"verif/harness/chain"
)

// StakedEntry is one entry of the staked-by-power index (prefix 0x23): key = prefix || power(8, BE) || ^addr.
type StakedEntry struct {
	Key     []byte
	Power   int64       // power encoded in the key
	KeyAddr sdk.Address // address encoded (inverted) in the key
	ValAddr sdk.Address // address stored as the value
}

// ChainEntry is one entry of the per-chain index (prefix 0x22): key = prefix || networkID || addr.
type ChainEntry struct {
	Chain string // hex network id
	Addr  sdk.Address
}

// UnstakingEntry is one entry of the unstaking queue (prefix 0x41): key = prefix || sortable time, value = addresses.
type UnstakingEntry struct {
	Key   []byte
	Time  time.Time
	Addrs []sdk.Address // as stored (may contain duplicates)
	Err   string        // non-empty if key or value could not be decoded
}

// WaitingEntry is one entry of the waiting-to-begin-unstaking set (prefix 0x43).
type WaitingEntry struct {
	KeyAddr sdk.Address
	ValAddr sdk.Address
}

// View is a snapshot of the proof-of-stake state.
type View struct {
	Height int64 // height the snapshot was decoded at (last committed height, or the block in progress)
	Time   time.Time

	Validators  []nodesTypes.Validator          // every record under 0x21, in key (address) order
	ByAddr      map[string]nodesTypes.Validator // hex address -> record
	Undecodable []string                        // hex keys of records that did not decode
	StakedSet   []StakedEntry
	ByChain     []ChainEntry
	Unstaking   []UnstakingEntry
	Waiting     []WaitingEntry
	PrevPower   map[string]int64 // hex address -> power (prefix 0x31)
	PrevTotal   sdk.BigInt       // prefix 0x32 (zero if absent)
	SignInfos   map[string]nodesTypes.ValidatorSigningInfo
	Missed      map[string]int // hex address -> number of "missed" bits set (prefix 0x12)
	Proposer    sdk.Address    // previous proposer (prefix 0x01)

	Balances map[string]sdk.BigInt // hex address -> uPOKT balance of EVERY account (module accounts included)
	Modules  map[string]string     // hex address -> module account name
	Supply   sdk.BigInt            // stored total supply (uPOKT)

	StakedPool    sdk.BigInt // node staking pool balance
	AppStakedPool sdk.BigInt
	DAO           sdk.BigInt
	FeeCollector  sdk.BigInt

	// Params is read through the nodes keeper (params subspace; not part of the indexes under test).
	Params nodesTypes.Params
}

// Hex is the map key used throughout: lower-case hex of the address.
func Hex(a sdk.Address) string { return hex.EncodeToString(a) }

// Val returns the record of addr.
func (v *View) Val(a sdk.Address) (nodesTypes.Validator, bool) {
	r, ok := v.ByAddr[Hex(a)]
	return r, ok
}

// IsWaiting reports whether addr is in the waiting-to-begin-unstaking set (by key).
func (v *View) IsWaiting(a sdk.Address) bool {
	h := Hex(a)
	for _, w := range v.Waiting {
		if Hex(w.KeyAddr) == h {
			return true
		}
	}
	return false
}

// Balance is the uPOKT balance of addr (zero if there is no account).
func (v *View) Balance(a sdk.Address) sdk.BigInt {
	if b, ok := v.Balances[Hex(a)]; ok {
		return b
	}
	return sdk.ZeroInt()
}

// SumStaked is the sum of StakedTokens over records that are staked or unstaking.
func (v *View) SumStaked() sdk.BigInt {
	s := sdk.ZeroInt()
	for _, r := range v.Validators {
		if r.Status == sdk.Staked || r.Status == sdk.Unstaking {
			s = s.Add(r.StakedTokens)
		}
	}
	return s
}

// SumBalances is the sum of all account balances.
func (v *View) SumBalances() sdk.BigInt {
	s := sdk.ZeroInt()
	for _, b := range v.Balances {
		s = s.Add(b)
	}
	return s
}

// Output is the address the stake of r is returned to.
func Output(r nodesTypes.Validator) sdk.Address {
	if r.OutputAddress == nil {
		return r.Address
	}
	return r.OutputAddress
}

// Power is the consensus power a record has by its tokens (tokens / 10^6), regardless of status.
func Power(r nodesTypes.Validator) int64 { return sdk.TokensToConsensusPower(r.StakedTokens) }

func cp(b []byte) []byte { return append([]byte(nil), b...) }

func scan(st sdk.KVStore, prefix []byte, f func(k, v []byte)) {
	it, err := sdk.KVStorePrefixIterator(st, prefix)
	if err != nil {
		panic(err)
	}
	defer it.Close()
	for ; it.Valid(); it.Next() {
		f(cp(it.Key()), cp(it.Value()))
	}
}

// Read takes a snapshot of n.
func Read(n *chain.Node) *View {
	ctx := n.Ctx()
	h := ctx.BlockHeight()
	cdc := app.Codec()
	nk := n.App.VerifNodesKeeper()
	ak := n.App.VerifAccountKeeper()
	v := &View{Height: h, Time: n.Time, ByAddr: map[string]nodesTypes.Validator{}, PrevPower: map[string]int64{},
		SignInfos: map[string]nodesTypes.ValidatorSigningInfo{}, Missed: map[string]int{}, Balances: map[string]sdk.BigInt{},
		Modules: map[string]string{}, PrevTotal: sdk.ZeroInt(), Supply: sdk.ZeroInt()}
	ns := n.App.Store().GetKVStore(n.App.Keys[nodesTypes.StoreKey])

	// records
	scan(ns, nodesTypes.AllValidatorsKey, func(k, val []byte) {
		r, err := nk.UnmarshalValidator(ctx, val) // pure decoding (height-gated legacy/proto form), no cache
		if err != nil || len(k) != 1+sdk.AddrLen || Hex(r.Address) != hex.EncodeToString(k[1:]) {
			v.Undecodable = append(v.Undecodable, hex.EncodeToString(k))
			return
		}
		v.Validators = append(v.Validators, r)
		v.ByAddr[Hex(r.Address)] = r
	})
	// staked-by-power index
	scan(ns, nodesTypes.StakedValidatorsKey, func(k, val []byte) {
		e := StakedEntry{Key: k, ValAddr: sdk.Address(val)}
		if len(k) == 1+8+sdk.AddrLen {
			e.Power = int64(binary.BigEndian.Uint64(k[1:9]))
			a := cp(k[9:])
			for i := range a {
				a[i] = ^a[i]
			}
			e.KeyAddr = a
		}
		v.StakedSet = append(v.StakedSet, e)
	})
	// per-chain index
	scan(ns, nodesTypes.StakedValidatorsByNetIDKey, func(k, _ []byte) {
		if len(k) < 1+sdk.AddrLen {
			v.ByChain = append(v.ByChain, ChainEntry{Chain: "?" + hex.EncodeToString(k)})
			return
		}
		cut := len(k) - sdk.AddrLen
		v.ByChain = append(v.ByChain, ChainEntry{Chain: hex.EncodeToString(k[1:cut]), Addr: sdk.Address(k[cut:])})
	})
	// unstaking queue
	scan(ns, nodesTypes.UnstakingValidatorsKey, func(k, val []byte) {
		e := UnstakingEntry{Key: k}
		t, err := sdk.ParseTimeBytes(k[1:])
		if err != nil {
			e.Err = "key: " + err.Error()
		}
		e.Time = t
		var addrs sdk.Addresses
		if err := cdc.UnmarshalBinaryLengthPrefixed(val, &addrs, h); err != nil {
			e.Err += " value: " + err.Error()
		}
		e.Addrs = addrs
		v.Unstaking = append(v.Unstaking, e)
	})
	// waiting set
	scan(ns, nodesTypes.WaitingToBeginUnstakingKey, func(k, val []byte) {
		v.Waiting = append(v.Waiting, WaitingEntry{KeyAddr: sdk.Address(k[1:]), ValAddr: sdk.Address(val)})
	})
	// previous-state powers
	scan(ns, nodesTypes.PrevStateValidatorsPowerKey, func(k, val []byte) {
		var p sdk.Int64
		if err := cdc.UnmarshalBinaryLengthPrefixed(val, &p, h); err != nil {
			p = -1
		}
		v.PrevPower[hex.EncodeToString(k[1:])] = int64(p)
	})
	if b, _ := ns.Get(nodesTypes.PrevStateTotalPowerKey); b != nil {
		var p sdk.BigInt
		if err := cdc.UnmarshalBinaryLengthPrefixed(b, &p, h); err == nil {
			v.PrevTotal = p
		}
	}
	// signing infos and missed bits
	scan(ns, nodesTypes.ValidatorSigningInfoKey, func(k, val []byte) {
		var info nodesTypes.ValidatorSigningInfo
		if err := cdc.UnmarshalBinaryLengthPrefixed(val, &info, h); err != nil {
			return
		}
		v.SignInfos[hex.EncodeToString(k[1:])] = info
	})
	scan(ns, nodesTypes.ValidatorMissedBlockBitArrayKey, func(k, val []byte) {
		if len(k) < 1+sdk.AddrLen {
			return
		}
		var b sdk.Bool
		if err := cdc.UnmarshalBinaryLengthPrefixed(val, &b, h); err == nil && bool(b) {
			v.Missed[hex.EncodeToString(k[1:1+sdk.AddrLen])]++
		}
	})
	if b, _ := ns.Get(nodesTypes.ProposerKey); b != nil {
		var a sdk.Address
		if err := cdc.UnmarshalBinaryLengthPrefixed(b, &a, h); err == nil {
			v.Proposer = a
		}
	}

	// auth store: accounts and supply
	as := n.App.Store().GetKVStore(n.App.Keys[auth.StoreKey])
	scan(as, authTypes.AddressStoreKeyPrefix, func(k, val []byte) {
		acc, err := ak.DecodeAccount(val, ctx) // pure decoding
		if err != nil || acc == nil {
			v.Undecodable = append(v.Undecodable, "auth:"+hex.EncodeToString(k))
			return
		}
		ha := hex.EncodeToString(k[1:])
		v.Balances[ha] = acc.GetCoins().AmountOf(sdk.DefaultStakeDenom)
		if ma, ok := acc.(*authTypes.ModuleAccount); ok && ma.Name != "" {
			v.Modules[ha] = ma.Name
		}
	})
	if b, _ := as.Get(authTypes.SupplyKeyPrefix); b != nil {
		if s, err := ak.DecodeSupply(ctx, b); err == nil && s != nil {
			v.Supply = s.GetTotal().AmountOf(sdk.DefaultStakeDenom)
		}
	}
	v.StakedPool = v.Balance(authTypes.NewModuleAddress(nodesTypes.StakedPoolName))
	v.AppStakedPool = v.Balance(authTypes.NewModuleAddress(appsTypes.StakedPoolName))
	v.DAO = v.Balance(authTypes.NewModuleAddress(govTypes.DAOAccountName))
	v.FeeCollector = v.Balance(authTypes.NewModuleAddress(auth.FeeCollectorName))
	v.Params = nk.GetParams(ctx)
	return v
}

// AppsView is the raw state of the applications module.
type AppsView struct {
	Height    int64
	Apps      []appsTypes.Application
	ByAddr    map[string]appsTypes.Application
	StakedSet []sdk.Address    // staking-set index entries (value addresses)
	Unstaking []UnstakingEntry // unstaking queue (time -> addresses)
	Params    appsTypes.Params
}

// ReadApps takes a snapshot of the applications store (records, staking set, unstaking queue).
func ReadApps(n *chain.Node) *AppsView {
	ctx := n.Ctx()
	h := ctx.BlockHeight()
	cdc := app.Codec()
	k := n.App.VerifAppsKeeper()
	st := n.App.Store().GetKVStore(n.App.Keys[appsTypes.StoreKey])
	v := &AppsView{Height: h, ByAddr: map[string]appsTypes.Application{}}
	scan(st, appsTypes.AllApplicationsKey, func(key, val []byte) {
		a, err := appsTypes.UnmarshalApplication(cdc, ctx, val)
		if err != nil {
			return
		}
		v.Apps = append(v.Apps, a)
		v.ByAddr[Hex(a.Address)] = a
	})
	scan(st, appsTypes.StakedAppsKey, func(_, val []byte) { v.StakedSet = append(v.StakedSet, sdk.Address(val)) })
	scan(st, appsTypes.UnstakingAppsKey, func(key, val []byte) {
		e := UnstakingEntry{Key: key}
		t, err := sdk.ParseTimeBytes(key[1:])
		if err != nil {
			e.Err = "key: " + err.Error()
		}
		e.Time = t
		var addrs sdk.Addresses
		if err := cdc.UnmarshalBinaryLengthPrefixed(val, &addrs, h); err != nil {
			e.Err += " value: " + err.Error()
		}
		e.Addrs = addrs
		v.Unstaking = append(v.Unstaking, e)
	})
	v.Params = k.GetParams(ctx)
	return v
}

// Describe renders the node records compactly (for violation messages).
func (v *View) Describe() string {
	s := fmt.Sprintf("h=%d pool=%s supply=%s [", v.Height, v.StakedPool, v.Supply)
	for _, r := range v.Validators {
		j := ""
		if r.Jailed {
			j = "J"
		}
		w := ""
		if v.IsWaiting(r.Address) {
			w = "W"
		}
		s += fmt.Sprintf("%s:%d%s%s:%s ", Hex(r.Address)[:6], r.Status, j, w, r.StakedTokens)
	}
	s += "] staked{"
	for _, e := range v.StakedSet {
		s += fmt.Sprintf("%d/%s ", e.Power, Hex(e.ValAddr)[:6])
	}
	s += "} queue{"
	for _, e := range v.Unstaking {
		s += e.Time.Format("15:04:05") + "="
		for _, a := range e.Addrs {
			s += Hex(a)[:6] + ","
		}
		s += " "
	}
	s += "} waiting{"
	for _, w := range v.Waiting {
		s += Hex(w.KeyAddr)[:6] + " "
	}
	ks := make([]string, 0, len(v.PrevPower))
	for k := range v.PrevPower {
		ks = append(ks, k)
	}
	sort.Strings(ks)
	s += "} prev{"
	for _, k := range ks {
		s += fmt.Sprintf("%s:%d ", k[:6], v.PrevPower[k])
	}
	return s + "}"
}
