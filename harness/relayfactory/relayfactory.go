// Package relayfactory mints everything a gateway/client/servicer trio produces around relays, from keys
// the harness owns: application authentication tokens (AATs), client-signed relay proofs and full relay
// requests, evidence sets of any size, the Merkle-sum-index tree over an evidence set, the MsgClaim for
// its root and - once the chain has produced the block whose hash selects the leaf - the MsgProof for the
// required (or, on purpose, any other) index. It also registers a key as the local servicer ("pocket
// node") with production-initialised evidence/session caches and hosts a relayed chain on an in-process
// HTTP server. It contains no oracle.
//
// Independence notes: the tree itself is built with the repository's exported GenerateRoot/GenerateProofs
// (what an honest node runs); the required index is re-derived here from the block hash (RequiredIndex),
// not taken from the keeper.
package relayfactory

import (
	"encoding/binary"
	"encoding/hex"
	"encoding/json"
	"fmt"
	"net/http"
	"net/http/httptest"
	"os"
	"sync"

	"github.com/tendermint/tendermint/libs/log"
	tmStore "github.com/tendermint/tendermint/store"

	"github.com/pokt-network/pocket-core/crypto"
	sdk "github.com/pokt-network/pocket-core/types"
	pocketKeeper "github.com/pokt-network/pocket-core/x/pocketcore/keeper"
	pocketTypes "github.com/pokt-network/pocket-core/x/pocketcore/types"
)

// TokenVersion is the only AAT version the network supports.
const TokenVersion = "0.0.1"

// ---------------------------------------------------------------------------------------------
// tokens, proofs, relays

// MintAAT returns a token naming client as the authorised client key, signed by the application key.
func MintAAT(app crypto.PrivateKey, client crypto.PublicKey) pocketTypes.AAT {
	a := pocketTypes.AAT{Version: TokenVersion, ApplicationPublicKey: app.PublicKey().RawString(), ClientPublicKey: client.RawString()}
	SignAAT(&a, app)
	return a
}

// SignAAT (re)computes the application signature of a with signer (any key: forged tokens are signed by
// a key other than the one named in ApplicationPublicKey).
func SignAAT(a *pocketTypes.AAT, signer crypto.PrivateKey) {
	a.ApplicationSignature = ""
	sig, err := signer.Sign(a.Hash())
	if err != nil {
		panic(err)
	}
	a.ApplicationSignature = hex.EncodeToString(sig)
}

// ProofParams describes one relay proof.
type ProofParams struct {
	Token         pocketTypes.AAT
	Client        crypto.PrivateKey // signs the proof (must be the key named in Token for a valid proof)
	ServicerPub   string            // hex public key of the servicing node
	Chain         string
	SessionHeight int64
	Entropy       int64
	RequestHash   string // hex SHA3-256 of the request (see RequestHashOf / FakeRequestHash)
}

// NewRelayProof builds and client-signs a relay proof.
func NewRelayProof(p ProofParams) pocketTypes.RelayProof {
	rp := pocketTypes.RelayProof{RequestHash: p.RequestHash, Entropy: p.Entropy, SessionBlockHeight: p.SessionHeight,
		ServicerPubKey: p.ServicerPub, Blockchain: p.Chain, Token: p.Token}
	SignRelayProof(&rp, p.Client)
	return rp
}

// SignRelayProof (re)computes the client signature of rp with signer.
func SignRelayProof(rp *pocketTypes.RelayProof, signer crypto.PrivateKey) {
	rp.Signature = ""
	sig, err := signer.Sign(rp.Hash())
	if err != nil {
		panic(err)
	}
	rp.Signature = hex.EncodeToString(sig)
}

// FakeRequestHash is a well-formed request hash for proofs that are never served (evidence sets).
func FakeRequestHash(label string) string {
	return hex.EncodeToString(pocketTypes.Hash([]byte("verif-request:" + label)))
}

// RequestHashOf is the hash a client puts into the proof for (payload, meta).
func RequestHashOf(payload pocketTypes.Payload, meta pocketTypes.RelayMeta) string {
	return pocketTypes.Relay{Payload: payload, Meta: meta}.RequestHashString()
}

// RelayParams describes one full relay request.
type RelayParams struct {
	ProofParams // RequestHash is ignored: it is computed from Payload and Meta
	Payload     pocketTypes.Payload
	MetaHeight  int64
}

// NewRelay builds a full, client-signed relay request.
func NewRelay(p RelayParams) pocketTypes.Relay {
	meta := pocketTypes.RelayMeta{BlockHeight: p.MetaHeight}
	pp := p.ProofParams
	pp.RequestHash = RequestHashOf(p.Payload, meta)
	return pocketTypes.Relay{Payload: p.Payload, Meta: meta, Proof: NewRelayProof(pp)}
}

// EvidenceSet mints n distinct relay proofs of one session for one servicer (entropy firstEntropy+i).
func EvidenceSet(p ProofParams, n int, firstEntropy int64) []pocketTypes.Proof {
	out := make([]pocketTypes.Proof, 0, n)
	for i := 0; i < n; i++ {
		q := p
		q.Entropy = firstEntropy + int64(i)
		if q.RequestHash == "" {
			q.RequestHash = FakeRequestHash(fmt.Sprintf("%d", q.Entropy))
		}
		out = append(out, NewRelayProof(q))
	}
	return out
}

// Header is the session header of (application public key, chain, session start height).
func Header(appPub crypto.PublicKey, chain string, sessionHeight int64) pocketTypes.SessionHeader {
	return pocketTypes.SessionHeader{ApplicationPubKey: appPub.RawString(), Chain: chain, SessionBlockHeight: sessionHeight}
}

// ---------------------------------------------------------------------------------------------
// Merkle-sum-index tree, claim, proof

// Tree is the Merkle-sum-index tree over an evidence set.
type Tree struct {
	SessionHeight int64
	Leaves        []pocketTypes.Proof // in tree order (sorted by leaf hash sum)
	Root          pocketTypes.HashRange
}

// BuildTree builds the tree as the claiming node does (sorted leaves, padded to a power of two).
// At least 2 proofs are required (the network requires 5).
func BuildTree(sessionHeight int64, proofs []pocketTypes.Proof) *Tree {
	cp := append([]pocketTypes.Proof{}, proofs...)
	root, sorted := pocketTypes.GenerateRoot(sessionHeight, cp)
	return &Tree{SessionHeight: sessionHeight, Leaves: append([]pocketTypes.Proof{}, sorted...), Root: root}
}

// Total is the number of (real) leaves = the claim's total proofs.
func (t *Tree) Total() int64 { return int64(len(t.Leaves)) }

// Prove returns the Merkle proof and the leaf at index (0 <= index < Total()).
func (t *Tree) Prove(index int64) (pocketTypes.MerkleProof, pocketTypes.Proof) {
	cp := append([]pocketTypes.Proof{}, t.Leaves...)
	mp, leaf := pocketTypes.GenerateProofs(t.SessionHeight, cp, int(index))
	return mp, leaf
}

// NewMsgClaim is the claim of servicer `from` for the tree's root.
func NewMsgClaim(header pocketTypes.SessionHeader, from sdk.Address, t *Tree) *pocketTypes.MsgClaim {
	return &pocketTypes.MsgClaim{SessionHeader: header, MerkleRoot: t.Root, TotalProofs: t.Total(), FromAddress: from,
		EvidenceType: pocketTypes.RelayEvidence}
}

// NewMsgProof is the proof message for the leaf at index.
func NewMsgProof(t *Tree, index int64) *pocketTypes.MsgProof {
	mp, leaf := t.Prove(index)
	return &pocketTypes.MsgProof{MerkleProof: mp, Leaf: leaf, EvidenceType: pocketTypes.RelayEvidence}
}

// ProofHeight is the height whose header carries the entropy that selects the leaf: session start +
// claim submission window (in sessions) * blocks per session. A claim is mature above this height.
func ProofHeight(sessionHeight, claimSubmissionWindow, blocksPerSession int64) int64 {
	return sessionHeight + claimSubmissionWindow*blocksPerSession
}

// EntropyHash returns the hash that block proofHeight's header carries as LastBlockID, i.e. the hash of
// block proofHeight-1, read from the block store. ok=false while that block does not exist yet.
func EntropyHash(bs *tmStore.BlockStore, proofHeight int64) ([]byte, bool) {
	if proofHeight < 2 {
		return nil, false
	}
	meta := bs.LoadBlockMeta(proofHeight - 1)
	if meta == nil {
		return nil, false
	}
	return append([]byte{}, meta.BlockID.Hash...), true
}

// RequiredIndex re-derives the leaf index the network demands for a claim of `total` proofs:
// SHA3-256(json{"BlockHash": hex(entropyHash), "Header": header hash}) first 8 bytes big-endian, mod total.
func RequiredIndex(entropyHash []byte, header pocketTypes.SessionHeader, total int64) int64 {
	seed, err := json.Marshal(struct {
		BlockHash string
		Header    string
	}{hex.EncodeToString(entropyHash), header.HashString()})
	if err != nil {
		panic(err)
	}
	h := pocketTypes.Hash(seed)
	return int64(binary.BigEndian.Uint64(h[:8]) % uint64(total))
}

// ---------------------------------------------------------------------------------------------
// servicer side: local pocket node with caches, hosted chain backend

// RegisterServicer registers key as a local servicer exactly as a production node does at start-up:
// AddPocketNode + InitPocketNodeCache (evidence store = on-disk LevelDB under workDir, so that the seal
// map is initialised by CacheStorage.Init; session store in memory). The first registered node also
// becomes the GlobalSessionCache / GlobalEvidenceCache. workDir must be unique per node life (under
// VERIF_WORK); the caller removes it. chain.ResetGlobals (NewNode) closes and forgets all servicers.
func RegisterServicer(key crypto.PrivateKey, workDir string, maxEvidenceEntries int) *pocketTypes.PocketNode {
	c := sdk.DefaultTestingPocketConfig()
	c.PocketConfig.DataDir = workDir
	c.PocketConfig.LeanPocket = true // per-address evidence DB name: several servicers can share workDir
	if maxEvidenceEntries > 0 {
		c.PocketConfig.MaxEvidenceCacheEntires = maxEvidenceEntries
	}
	if err := os.MkdirAll(workDir, 0o755); err != nil {
		panic(err)
	}
	node := pocketTypes.AddPocketNode(key, log.NewNopLogger())
	pocketTypes.InitPocketNodeCache(node, c, log.NewNopLogger())
	if node.EvidenceStore.SealMap == nil { // S16 guard: never true on the disk path
		node.EvidenceStore.SealMap = &sync.Map{}
	}
	return node
}

// Backend is an in-process HTTP server standing in for a relayed blockchain.
type Backend struct {
	Srv   *httptest.Server
	mu    sync.Mutex
	Hits  int
	Reply string
}

// NewBackend starts a backend answering every request with reply (a JSON document).
func NewBackend(reply string) *Backend {
	b := &Backend{Reply: reply}
	b.Srv = httptest.NewServer(http.HandlerFunc(func(w http.ResponseWriter, r *http.Request) {
		b.mu.Lock()
		b.Hits++
		b.mu.Unlock()
		w.Header().Set("Content-Type", "application/json")
		_, _ = w.Write([]byte(b.Reply))
	}))
	return b
}

func (b *Backend) Count() int { b.mu.Lock(); defer b.mu.Unlock(); return b.Hits }
func (b *Backend) Close()     { b.Srv.Close() }

// HostChains makes the keeper's node host the given chains at url (the keeper holds a pointer to the
// hosted-blockchains object the application was built with; SetHostedBlockchains swaps its map).
func HostChains(k pocketKeeper.Keeper, url string, chains ...string) {
	m := map[string]pocketTypes.HostedBlockchain{}
	for _, c := range chains {
		m[c] = pocketTypes.HostedBlockchain{ID: c, URL: url}
	}
	k.SetHostedBlockchains(m)
}
