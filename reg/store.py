import os, sys
sys.path.insert(0, os.path.dirname(os.path.abspath(__file__)))
from _util import c

CHECKS = {
    "C01": c("store", "TestC01", dict(checks=3000, timeout=300), dict(checks=30000, shards=14, timeout=1500),
             technique="stateful property-based testing (rapid state machine) against a map-overlay reference model",
             design_ref="DESIGN.md §7 C01",
             level_text="Generated operation histories over nested cachekv stores compared step by step with a map overlay model; "
                        "exploration only: bounded history length and a small key alphabet, no absence claim.",
             level_note="Trusts tm-db MemDB as the base store, rapid, and the ~40-line overlay model. Concurrency on the store mutex is not explored."),
}
