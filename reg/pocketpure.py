import os, sys
sys.path.insert(0, os.path.dirname(os.path.abspath(__file__)))
from _util import c

CHECKS = {
    "C29": c("pocketpure", "TestC29", dict(checks=2000, timeout=400), dict(checks=12000, shards=14, timeout=1500),
             technique="property-based testing (rapid): generated relay sets -> GenerateRoot / GenerateProofs -> MerkleProof.Validate round trip, "
                       "shuffle metamorphic relation on the root, evidence path with the max-relays cut",
             design_ref="DESIGN.md §7 C29",
             level_text="Generated trees of 5..300 distinct relay proofs (sizes concentrated on 2^k-1, 2^k, 2^k+1), every leaf index for n<=64 and boundary+sampled indices above, "
                        "both parent-hash formats selected through the real codec globals; exploration only: sizes above 300 and challenge-proof leaves are not generated.",
             level_note="Generation and verification are two code paths of the same package (round trip), so a mistake shared by both (e.g. the same wrong hash input on both sides) is invisible; "
                        "the level count is restated as ceil(log2 n) exactly as ValidateProof computes it. Trusts blake2b/sha3 and rapid."),
    "C30": c("pocketpure", "TestC30", dict(checks=3000, timeout=400), dict(checks=20000, shards=14, timeout=1500),
             technique="mutation-based property testing (rapid): every single-field mutation of a valid (root, proof, leaf) triple must fail MerkleProof.Validate; "
                       "duplicate-relay multisets against a hash-free model of empty ranges; replay path through a real keeper and message handler with stub pos/apps keepers",
             design_ref="DESIGN.md §7 C30",
             level_text="Fixed mutation catalogue (~55-75 mutations per proof, 3 proofs per tree) over generated trees of 5..150 leaves in both hash formats, plus trees with 1-3 duplicated relays "
                        "(all indices). Exploration only: single mutations and the listed structural ones, no search for multi-field collisions (that would be a hash-collision search).",
             level_note="Index + k*2^levels is only mutated for the index-binding format: the legacy parent hash does not bind the index and the keeper admits only index < total <= 2^levels "
                        "(stated restriction). Keeper part uses stub pos/apps keepers (burn/reward observed as calls) on a real store and block store. Trusts the 20-line empty-range model."),
    "C31": c("pocketpure", "TestC31", dict(checks=3000, timeout=600), dict(checks=200000, shards=1, timeout=1500),
             technique="exhaustive enumeration of a finite (mode x blocks-per-session x claim-window x session x claim-height) grid against a real pocketcore keeper on a real versioned "
                       "multistore and tendermint block store (black-box observation of the claim-acceptance heights and of the entropy block), plus rapid property test of PseudorandomSelection",
             design_ref="DESIGN.md §7 C31",
             exhaustive=True,
             level_text="The grid {pre-upgrade, post-upgrade} x b=1..12 x w=2..6 x 3 session starts (thorough tier: b=1..16, w=2..8, 5 session starts) x every claim height from session start to start+(w+2)b is enumerated completely "
                        "(exhaustive refers to this grid only); the selection function itself is explored with random seeds/maxima, no absence claim outside the grid.",
             level_note="'Known to a tx author' is modelled as: a tx included in block h is authored knowing the hashes of all blocks < h (block h's header carries hash(h-1)). "
                        "Acceptance = ValidateClaim on the DeliverTx context of block h; entropy block = the unique block whose hash passes ValidateProof's index check under the documented "
                        "seed construction. pos/apps keepers are stubs (one node, session node count 1). Windows w<2 are rejected by params validation and not enumerated."),
    "C33": c("pocketpure", "TestC33", dict(checks=15000, timeout=400), dict(checks=60000, shards=14, timeout=1500),
             technique="property-based testing (rapid) of NewSession/NewSessionNodes against a data-only PosKeeper stub with a constructed eligible/ineligible population; "
                       "set-membership oracle, determinism by re-execution, generous deadline for termination",
             design_ref="DESIGN.md §7 C33",
             level_text="Generated populations (0..58 listed nodes, eligible count placed at count+{0,+-1,+-2,+-4,9,20}), all four ineligibility kinds, enforce-max-chains on/off; exploration only.",
             level_note="Eligibility is read as: listed for the chain at session start AND, at the reference height, existing, not jailed, still staked for the chain and within max-chains when enforced "
                        "(the property text does not mention 'still existing / still listing the chain'; treating those nodes as eligible would be a false alarm). "
                        "Termination bound 30 s per generation (> 10^4 x normal). The application-level form - sessions generated by the real dispatch entry point of a running chain "
                        "(real nodes keeper, real validators-by-chain index, historical contexts) after every commit of generated histories with jailing, unjail, edit-stake and unstake, judged against "
                        "eligibility read from raw store snapshots - is props/pos TestC33Chain, run by the same check.",
             also=[dict(group="pos", test="TestC33Chain", quick=dict(checks=150, timeout=600), thorough=dict(checks=2000, shards=8, timeout=3000))]),
}
