import os, sys
sys.path.insert(0, os.path.dirname(os.path.abspath(__file__)))
from _util import c

CHECKS = {
    "C02": c("storea", "TestC02", dict(checks=20000, timeout=300), dict(checks=40000, shards=14, timeout=1500),
             technique="stateful property-based testing (rapid state machine) of prefix.Store against a map model of the parent; "
                       "interval characterisation of PrefixEndBytes",
             design_ref="DESIGN.md §7 C02",
             level_text="Generated prefixes (empty, all-0xFF, 0xFF-tail, nested) and operation histories over MemDB, cachekv and IAVL parents "
                        "filled with keys inside and adjacent to the prefix range; every read, every bounded forward/reverse iteration and the whole "
                        "parent are compared with a map model after every step. Exploration only: prefixes up to 3 bytes (4 with 0xFF tail) from a "
                        "5-symbol alphabet, histories up to ~45 keys.",
             level_note="Trusts tm-db MemDB ordering, rapid and the 10-line view model. Parents are the real cachekv/iavl stores, so a defect of "
                        "those would also surface here. Nil keys and start > end are excluded (the stores assert / no caller)."),
    "C03": c("storea", "TestC03", dict(checks=1000, steps=60, timeout=400), dict(checks=5000, steps=60, shards=14, timeout=1500),
             technique="stateful property-based testing (rapid state machine) of iavl.MutableTree against per-version map snapshots, "
                       "plus a shape invariant (AVL balance, height, leaf order) rebuilt from RenderShape",
             design_ref="DESIGN.md §7 C03",
             level_text="Generated histories of Set/Remove/SaveVersion/reload/rollback/DeleteVersion (pruning of a retained non-latest version, also after rollbacks) over a tiny (8 keys) and a larger (up to ~150 keys) key space; "
                        "after every step the working tree, and at generated points and at the end every retained version, is compared completely "
                        "(Size, Get value+index, Has, GetByIndex, absent probes, full and bounded ranges in both directions, balance) with a map model. "
                        "Exploration only: histories of <=60 steps, trees of <=~200 keys.",
             level_note="Trusts tm-db MemDB, rapid and the sorted-map model. Subtree sizes are validated through Get-index/GetByIndex agreeing with "
                        "ranks for every key. MutableTree.Rollback(), DeleteVersions (plural) and IterateRangeInclusive are not exercised: no non-test caller "
                        "in this fork uses them (pruning is commented out in iavl.Store.Commit; the single-version DeleteVersion is exercised as the tree's public pruning API); rollback is exercised the way rootmulti.RollbackVersion "
                        "does it (fresh tree, LoadVersion, LoadVersionForOverwriting)."),
    "C05": c("storea", "TestC05", dict(checks=500, timeout=400), dict(checks=6000, shards=14, timeout=1500),
             technique="property-based testing of rootmulti/IAVL query proofs: completeness against harness-recorded commit hashes and a map model, "
                       "soundness by exhaustive structured single-field alteration of the decoded proof ops plus adversarial constructions",
             design_ref="DESIGN.md §7 C05",
             level_text="Generated multistore histories (1-3 IAVL stores, 2-5 versions, 0-40 keys per store, variable-length keys); for a drawn (version, store) "
                        "every present key and every derived absent key is queried with proof and verified; for 4 drawn proofs per case every single-field "
                        "alteration of every leaf, inner node, store info, plus altered root/key/value/kind and replay for other keys/stores must be rejected. "
                        "Exploration only: bounded tree sizes and key alphabet; alterations are single-field (plus two fixed multi-field forgeries), "
                        "not arbitrary adversarial proofs.",
             level_note="Trusts tendermint's merkle.ProofRuntime/SimpleHashFromMap, amino (de)serialisation, SHA-256 collision resistance, rapid and the map model. "
                        "Versions >= 2 only (baseapp refuses proofs at height <= 1). The substore CommitID.Version inside a multistore StoreInfo is not "
                        "hashed by design (StoreInfo.Hash covers the IAVL root hash only) and is therefore not altered. Dropping a redundant second leaf "
                        "together with its path yields another honest proof and is not treated as an alteration."),
}
