import os, sys
sys.path.insert(0, os.path.dirname(os.path.abspath(__file__)))
from _util import c

CHECKS = {
    "C02": c("storea", "TestC02", dict(checks=20000, timeout=300), dict(checks=40000, shards=14, timeout=1500),
             technique="stateful property-based testing (rapid state machine) of prefix.Store against a map model of the parent; "
                       "interval characterisation of PrefixEndBytes",
             design_ref="DESIGN.md §7 C02",
             level_text="Generated prefixes (empty, all-0xFF, 0xFF-tail, nested) and operation histories over MemDB, cachekv and IAVL parents "
                        "filled with keys inside and adjacent to the prefix range; every read, every bounded forward/reverse iteration and the whole "
                        "parent are compared with a map model after every step. Exploration only: prefixes up to 3 bytes (4 with 0xFF tail) from a "
                        "5-symbol alphabet, histories up to ~45 keys.",
             level_note="Trusts tm-db MemDB ordering, rapid and the 10-line view model. Parents are the real cachekv/iavl stores, so a defect of "
                        "those would also surface here. Nil keys and start > end are excluded (the stores assert / no caller)."),
    "C03": c("storea", "TestC03", dict(checks=1500, steps=60, timeout=400), dict(checks=15000, steps=60, shards=14, timeout=1500),
             technique="stateful property-based testing (rapid state machine) of iavl.MutableTree against per-version map snapshots, "
                       "plus a shape invariant (AVL balance, height, leaf order) rebuilt from RenderShape",
             design_ref="DESIGN.md §7 C03",
             level_text="Generated histories of Set/Remove/SaveVersion/reload/rollback over a tiny (8 keys) and a larger (up to ~150 keys) key space; "
                        "after every step the working tree, and at generated points and at the end every retained version, is compared completely "
                        "(Size, Get value+index, Has, GetByIndex, absent probes, full and bounded ranges in both directions, balance) with a map model. "
                        "Exploration only: histories of <=60 steps, trees of <=~200 keys.",
             level_note="Trusts tm-db MemDB, rapid and the sorted-map model. Subtree sizes are validated through Get-index/GetByIndex agreeing with "
                        "ranks for every key. MutableTree.Rollback(), DeleteVersion(s) and IterateRangeInclusive are not exercised: no non-test caller "
                        "in this fork uses them (pruning is commented out in iavl.Store.Commit); rollback is exercised the way rootmulti.RollbackVersion "
                        "does it (fresh tree, LoadVersion, LoadVersionForOverwriting)."),
}
