import os, sys
sys.path.insert(0, os.path.dirname(os.path.abspath(__file__)))
from _util import c

_SIM = ("Trusts the chain simulator (harness/chain: real PocketCoreApp over MemDB with a stub Tendermint), rapid, and the raw prefix decoders of the "
        "application / pos stores. ")

CHECKS = {
    "C20": c("appsmod", "TestC20", dict(checks=500, timeout=600), dict(checks=1500, shards=14, timeout=1500),
             technique="property-based invariant checking over generated transaction histories run through the real application (chain simulator); "
                       "invariant recomputed after every Commit from raw application records and the pool's account balance",
             design_ref="DESIGN.md §7 C20",
             level_text="Generated histories of application stakes, edit-stakes, transfers, begin-unstakes and maturity payouts (real signed txs through DeliverTx, "
                        "8-20 blocks each); after every committed height the application staked pool balance is compared with the sum of staked tokens of all "
                        "staked/unstaking application records read by raw prefix iteration. Exploration only: bounded history length and world size, no absence claim.",
             level_note=_SIM + "Applications are never jailed, slashed or force-unstaked by any transaction path, so the (legacy) force-unstake branch is not reached. "
                        "Only heights after the codec upgrade (history starts at height 4) are explored."),
    "C23": c("appsmod", "TestC23", dict(checks=400, timeout=600), dict(checks=900, shards=14, timeout=1500),
             technique="property-based testing of generated edit-stake transactions against before/after record comparison (one-sided oracle from the "
                       "documented immutability rules), inside generated chain histories with feature activation heights inside the history",
             design_ref="DESIGN.md §7 C23",
             level_text="Generated edit-stake messages for nodes and applications (amount below/equal/above, chains, URL, output address same/new/nil/operator, "
                        "delegators same/changed/dropped/invalid) from every signer class (operator, current output, proposed output, stranger), on nodes that are "
                        "staked, jailed, waiting to unstake or unstaking, at heights before/at/after the NCUST, OEDIT, RewardDelegators and VEDIT activations; raw "
                        "records before and after each DeliverTx are compared against the rules. Exploration only, no absence claim.",
             level_note=_SIM + "Judges only what the property names (address, public key, jailed, status, stake not lowered, output-address and delegator "
                        "authorisation, waiting nodes, failed edit leaves the record unchanged); chains / service URL / same-bin (VEDIT) outcomes are generated but not judged. "
                        "Crafted encodings (explicit empty output-address field) are not generated."),
    "C28": c("appsmod", "TestC28", dict(checks=400, timeout=600), dict(checks=900, shards=14, timeout=1500),
             technique="property-based testing of generated application stake / transfer requests inside chain histories: per-transaction before/after comparison of "
                       "raw application records, staked index, pool and balances against independently restated admission rules and a math/big restatement of the relay allowance",
             design_ref="DESIGN.md §7 C28",
             level_text="Generated application stake requests (amount around the minimum and around the balance, chain count around the maximum) against worlds whose "
                        "MaxApplications is 1-5 (set at genesis and changed by governance txs) so that the boundary is hit constantly, and transfers to fresh / funded / "
                        "already-registered / same keys signed by the current application, a stranger, a stranger presenting the application's public key, or the new key; "
                        "every DeliverTx is judged from the raw records before and after. Exploration only, no absence claim.",
             level_note=_SIM + "The relay allowance oracle reads BaseRelaysPerPOKT as hundredths of a relay per POKT (what the code does; the parameter's doc string "
                        "says 'base relays per POKT coin staked'); with ParticipationRateOn the oracle is exact-rational and tolerates 2 + baseline*1e-18 against the "
                        "18-digit decimal arithmetic of the implementation. Non-ed25519 target keys are not generated."),
}
