import os, sys
sys.path.insert(0, os.path.dirname(os.path.abspath(__file__)))
from _util import c

_TRUST = ("Trusts tm-db MemDB/GoLevelDB as the database, rapid, and the shared ~150-line history generator + per-version map model "
          "(props/storeb/common_test.go). Store level only (rootmulti.Store built the way baseapp builds it); the app-level variants "
          "through the chain simulator are separate checks. Pruning is PruneNothing as in app/config.go. ")

CHECKS = {
    "C04": c("storeb", "TestC04", dict(checks=7000, timeout=400), dict(checks=12000, shards=14, timeout=1500),
             technique="property-based testing of generated block histories with close/reopen points against a never-reopened replica "
                       "and a per-version map model",
             design_ref="DESIGN.md §7 C04",
             level_text="Generated write/delete/commit histories on rootmulti with reopen (LoadLatestVersion, LoadVersion(v), lazy past "
                        "views) on MemDB and GoLevelDB; CommitIDs compared with a replica after every commit, contents with the model after "
                        "every reopen. Exploration only: <=14 blocks of <=8 writes, 42-key alphabet, no absence claim.",
             level_note=_TRUST + "SetLazyLoading(true) has no caller and is not generated; the single-tree Load/LoadVersion form is left to C03."),
    "C06": c("storeb", "TestC06", dict(checks=35000, timeout=400), dict(checks=50000, shards=14, timeout=1500),
             technique="metamorphic property-based testing: twin runs differing only in transient writes / transient mounts / cache options, "
                       "plus a twin with one extra persistent write as non-vacuity guard",
             design_ref="DESIGN.md §7 C06",
             level_text="Generated block histories with persistent and transient writes; version = previous+1, equal hashes across twins that "
                        "differ only in non-persistent inputs, different hash for a twin with an extra persistent write, transient stores "
                        "empty right after every Commit and after restart; every substore's own commit version equals the block version; a history twin "
                        "reopens the database at an older version and re-executes the remaining blocks: same commit ids, each substore advancing by one "
                        "(substores still empty at the reload version are a counted class). Exploration only.",
             level_note=_TRUST + "ResponseCommit.Data at BaseApp level is not exercised here."),
    "C07": c("storeb", "TestC07", dict(checks=5000, timeout=600), dict(checks=10000, shards=14, timeout=1500),
             level="fault_enumeration",
             technique="crash-point enumeration with a fault-injecting DB wrapper (harness/faultdb): every write-event boundary of one commit "
                       "per generated history, each under 3 observed substore orders, compared with an uninterrupted reference run",
             design_ref="DESIGN.md §7 C07",
             level_text="For each generated history and crash block ALL crash points k=0..n of that commit (one event per substore "
                        "SaveVersion batch + the commit-info/latest-version batch) are enumerated; histories, crash block and substore commit "
                        "order (Go map order, sampled 3x per point) are explored, not exhausted.",
             level_note=_TRUST + "Events are whole batches (the DB contract makes a batch atomic); torn batches, fsync loss and crashes inside "
                        "RollbackVersion are not modelled. The recovered node re-executes the same blocks (determinism of the application is "
                        "assumed). faultdb never alters reads."),
    "C08": c("storeb", "TestC08", dict(checks=7000, timeout=400), dict(checks=12000, shards=14, timeout=1500),
             technique="property-based testing of generated histories + RollbackVersion(target) + reopen + replay (same or different blocks) "
                       "against reference CommitIDs, a fresh replica and the per-version map model",
             design_ref="DESIGN.md §7 C08",
             level_text="Generated histories and rollback targets (t=1 and t=latest-1 forced often), rollback issued on a fresh mount or on the "
                        "live store, MemDB and GoLevelDB. Checks height, hash, contents, unreadability of every later version, intact earlier "
                        "versions, and hashes after re-applying the same or different blocks. Exploration only.",
             level_note=_TRUST + "RollbackVersion has no caller inside the repository; it is driven the way doc/guides/rollback.md and the "
                        "commented baseapp tests use it (mount, rollback, restart). Height cache is off."),
    "C09": c("storeb", "TestC09", dict(checks=18000, steps=50, timeout=400), dict(checks=25000, steps=80, shards=14, timeout=1500),
             technique="stateful property-based testing (rapid state machine): commits, uncommitted writes, historical views "
                       "(LoadLazyVersion / CacheMultiStoreWithVersion), reads and long-lived iterators, against per-height map snapshots",
             design_ref="DESIGN.md §7 C09",
             level_text="Generated interleavings of block commits, pending writes, opening up to 4 historical views, Get/Has/range reads and "
                        "iterators kept open across later commits. Every read through a view of height h is compared with the snapshot of h. "
                        "Exploration only: <=14 blocks, single goroutine.",
             level_note=_TRUST + "The in-memory height cache is on in a third of the cases (C10 compares cache on/off directly). The application-level form (historical RPC queries through ctx.PrevCtx and the "
                        "historical-context cache, compared with recorded committed state) is props/abci TestC09App, run by the same check. True "
                        "concurrency between queries and block execution is not explored.",
             also=[dict(group="abci", test="TestC09App", quick=dict(checks=120, timeout=400), thorough=dict(checks=1200, shards=4, timeout=1500))]),
    "C10": c("storeb", "TestC10", dict(checks=7000, timeout=400), dict(checks=12000, shards=14, timeout=1500),
             technique="differential property-based testing: the same generated history on a cache=true and a cache=false multistore, every "
                       "read at every recent height compared between the two and with the map model",
             design_ref="DESIGN.md §7 C10",
             level_text="Generated histories of 3-30 blocks (inside and beyond the 12-height cache window, optional restart); sweeps of Get/Has "
                        "for present, absent and empty-valued keys and of full, bounded and reverse iterations at every height of the window, "
                        "at evicted heights, through views opened earlier, and on the working stores. Exploration only.",
             level_note=_TRUST + "Whether the cache serves a height is read from the cache object (Store.Cache). Manifestations of the known "
                        "cache defects are classified into narrow signatures so that the remaining comparisons keep running behind them."),
}
