import os, sys
sys.path.insert(0, os.path.dirname(os.path.abspath(__file__)))
from _util import c

CHECKS = {
    "C26": c("rewards", "TestC26", dict(checks=5000, timeout=300), dict(checks=30000, shards=14, timeout=1500),
             technique="property-based testing (rapid) of the real auth/nodes/gov keepers against an integer (math/big) model of the "
                       "reward, delegator and fee splits; conservation recomputed from raw account state",
             design_ref="DESIGN.md §7 C26",
             level_text="Generated servicers (output/delegator maps incl. total share 100, duplicates of one address in different hex case, "
                        "delegator = output/operator), allocations, multipliers, fee multipliers and feature-gate combinations; every "
                        "RewardForRelaysPerChain call and the block reward paid by the real BeginBlocker are compared account by account with "
                        "the model, and supply with the sum of all balances. Exploration only: one servicer per case, bounded amounts (relays <= 1e9), no absence claim.",
             level_note="Trusts math/big, rapid and the ~60-line split model. The total reward is taken from CalculateRelayReward and checked exactly "
                        "only where the stake weight is exact (RSCAL off, bin 0/1, exponent 0), otherwise to 1e-6 relative. The DAO cut is accepted "
                        "at floor(fees*dao/(dao+proposer)) or one below (the implementation rounds the ratio to 18 decimals first). Keepers are wired "
                        "by harness/poskeeper like app.NewPocketCoreApp, but no transactions/ante handler are run: tx fees are modelled by funding the fee collector.",
             assumptions=["reward delegator maps satisfy MsgStake.ValidateBasic (NormalizeRewardDelegators accepts them)",
                          "nodes params satisfy Params.Validate", "block height above the non-custodial rollback height (69583)"]),
    "C27": c("rewards", "TestC27", dict(checks=5000, timeout=400), dict(checks=30000, shards=14, timeout=1500),
             technique="metamorphic property-based testing (rapid): monotonicity / flatness relations between evaluations of the real "
                       "CalculateRelayReward and BurnForChallenge (supply delta) at neighbouring stakes and counts; deadline-based non-termination detection",
             design_ref="DESIGN.md §7 C27",
             level_text="Generated stake-weight parameter sets (floor 1..2e10, 1..1500 bins, ceiling with and without remainder, all exponents n/100, "
                        "weight multiplier n/100, multipliers) and stakes on the bin grid +-1 around every edge and the ceiling, up to 2x ceiling; "
                        "results compared pairwise (non-negative, non-decreasing in stake and count, flat beyond the ceiling). Exploration only, no absence claim.",
             level_note="Non-termination is judged by a wall-clock deadline of max(10 s, 1000 x the median evaluation time of the same run) per evaluation "
                        "(the only place a time bound is an oracle). The burn is observed only for stakes >= 1 POKT that cannot cap it (stake >= bound on the coins); "
                        "it uses the default multiplier only. Signature naming of the 'weight collapses' manifestation re-evaluates the implementation at bin 1 "
                        "(naming only, not an oracle).",
             assumptions=["floor multiplier > 0, ceiling >= floor, weight multiplier in (0,10], exponent in {0.00..1.00} (nothing in /repo validates these params; "
                          "this is the domain named by the property)"]),
}
