import os, sys
sys.path.insert(0, os.path.dirname(os.path.abspath(__file__)))
from _util import c

CHECKS = {
    "C32": c("relays", "TestC32", dict(checks=400, timeout=600), dict(checks=1000, shards=14, timeout=1500),
             technique="property-based testing of generated claim/proof transaction histories on the chain simulator (real application, "
                       "real MsgClaim/MsgProof built by a relay factory) with a trace monitor: model of legitimate claims and required leaves, "
                       "supply measured around every transaction, claims store compared with the model after every block",
             design_ref="DESIGN.md §7 C32",
             level_text="Generated histories (1-2 sessions, up to 6 claim plans with 0-2 deviations each and 0-3 proof variants) over small worlds; "
                        "exploration only: bounded history length, parameters fixed per history (no governance changes mid-history), relay evidence only "
                        "(no challenge evidence), no absence claim.",
             level_note="Trusts the chain simulator, the relay factory (tree built with the repository's GenerateRoot/GenerateProofs; required index re-derived "
                        "independently), and the ~150-line claim/proof model. Session membership is decided only when the number of eligible nodes is <= "
                        "SessionNodeCount (otherwise the case is labelled undecided and only necessary conditions are asserted). The maturity boundary follows the "
                        "code (a claim is accepted up to and including the block whose header reveals the entropy; that rule itself is C31's subject). "
                        "Below height 69583 the reward code pays nothing to a servicer with a separate non-validator output address (main-net incident replay): "
                        "the model expects a zero mint there."),
    "C35": c("relays", "TestC35", dict(checks=500, timeout=600), dict(checks=1500, shards=14, timeout=1500),
             technique="single-alteration (mutation-style) input generation against the real pocketcore keeper of a chain-simulator node: every relay is a valid relay "
                       "from the relay factory with at most one authorization element altered; oracle = rejection with unchanged evidence and no backend call, "
                       "plus non-vacuity (unaltered relays served, signed by the node key, recorded exactly once)",
             design_ref="DESIGN.md §7 C35",
             level_text="39 alteration kinds x generated worlds (1-3 peers, 2-4 blocks per session, context anywhere in sessions 2-4, lean / non-lean node mode, "
                        "session sync allowance 0-1, validator set of a chain changed by real stake / edit-stake transactions before or after the latest session's "
                        "first block, node session cache empty), about 11 000 relays per quick run; exploration only, no absence claim. Only single alterations are generated.",
             level_note="Keeper level: HandleRelay is called directly with the context app.NewContext(lastHeight) builds; the RPC layer (JSON decoding, sync-status gate) is "
                        "not exercised. The hosted chain is an in-process HTTP server registered through Keeper.SetHostedBlockchains on the application's own keeper. "
                        "Stakes are laid out so that session membership is decidable without re-implementing selection (stakers of a chain at the session's first "
                        "block == SessionNodeCount, or the servicer not among them); worlds where the servicer joined a chain with SessionNodeCount+1 stakers at the "
                        "session start are generated but membership is not asserted there. Nodes join and leave a chain by stake / edit-stake transactions (a begin-unstake waits for the session end, so it is not a mid-session change). "
                        "A second test (TestC35Sequence, same check) interleaves relays with chain progress: the node serves relays of a session (caching it), is jailed for downtime in a later block of the same "
                        "session, must refuse every relay while jailed, and serves again after its unjail.",
             also=[dict(group="relays", test="TestC35Sequence", quick=dict(checks=150, timeout=600), thorough=dict(checks=2500, shards=8, timeout=1500))]),
    "C34": c("relays", "TestC34", dict(checks=350, timeout=600), dict(checks=4000, shards=14, timeout=1500),
             technique="schedule exploration with a harness-owned deterministic scheduler: the build-tag hook pocketTypes.VerifYield parks every goroutine between relay "
                       "validation and proof storage and between reading and writing back the evidence; a rapid-drawn sequence of goroutine ids decides who runs next "
                       "(one goroutine at a time); invariants on the stored evidence are checked at quiescence",
             design_ref="DESIGN.md §7 C34",
             level_text="Schedules of 2-5 relay goroutines (identical and distinct relays of one session, 0-5 relays already stored, per-node limit 2-6, evidence LRU capacity "
                        "default / 1 / 2) plus an optional sealing goroutine that does what the claim sender does and an optional goroutine performing 1-3 store events "
                        "(FlushToDB, evidence-iterator pass, relay of another session of the same node); 6 schedules per generated world, 2 100 schedules per quick run. "
                        "Exploration bounded to the two instrumented yield points (plus harness-level points between the sealer's read, its state reads and its seal, and "
                        "between store events): interleavings inside other functions are not explored; no absence claim.",
             level_note="Trusts the scheduler (goroutine identity from runtime.Stack; a goroutine blocked on a lock is recognised from its runtime status) and the hook "
                        "placement. The sealer mimics SendClaimTx (EvidenceIterator read, then Evidence.GenerateMerkleRoot) rather than calling it (it needs a Tendermint client). "
                        "The property bounds what is stored, not what is served: relays answered after the evidence was sealed are not required to be recorded. "
                        "Evidence is observed without going through the store's read path (LRU peek, else database record), so observing does not move it."),
}
