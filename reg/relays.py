import os, sys
sys.path.insert(0, os.path.dirname(os.path.abspath(__file__)))
from _util import c

CHECKS = {
    "C32": c("relays", "TestC32", dict(checks=300, timeout=600), dict(checks=1000, shards=14, timeout=1500),
             technique="property-based testing of generated claim/proof transaction histories on the chain simulator (real application, "
                       "real MsgClaim/MsgProof built by a relay factory) with a trace monitor: model of legitimate claims and required leaves, "
                       "supply measured around every transaction, claims store compared with the model after every block",
             design_ref="DESIGN.md §7 C32",
             level_text="Generated histories (1-2 sessions, up to 6 claim plans with 0-2 deviations each and 0-3 proof variants) over small worlds; "
                        "exploration only: bounded history length, parameters fixed per history (no governance changes mid-history), relay evidence only "
                        "(no challenge evidence), no absence claim.",
             level_note="Trusts the chain simulator, the relay factory (tree built with the repository's GenerateRoot/GenerateProofs; required index re-derived "
                        "independently), and the ~150-line claim/proof model. Session membership is decided only when the number of eligible nodes is <= "
                        "SessionNodeCount (otherwise the case is labelled undecided and only necessary conditions are asserted). The maturity boundary follows the "
                        "code (a claim is accepted up to and including the block whose header reveals the entropy; that rule itself is C31's subject)."),
}
