import os, sys
sys.path.insert(0, os.path.dirname(os.path.abspath(__file__)))
from _util import c

CHECKS = {
    "C41": c("coins", "TestC41", dict(checks=600000, timeout=400), dict(checks=1500000, shards=14, timeout=1500),
             technique="property-based differential testing against math/big models (map[denom]*big.Int for coin sets, big.Int / big.Rat for BigInt / BigDec)",
             design_ref="DESIGN.md §7 C41",
             level_text="Generated coin sets / integers / decimals (boundary-biased: zero entries, interleaved denominations, amounts around 2^255 and 2^315, "
                        "rounding ties) compared operation by operation with an arbitrary-precision model, including which calls must panic; "
                        "exploration only, no absence claim.",
             level_note="Trusts math/big and rapid. BigDec.Quo/QuoRoundUp are modelled as the code comments document them (quotient truncated at 36 digits, "
                        "then rounded to 18), not as rounding of the exact rational; Coins.IsAllGT of two empty sets and the IsAny* helpers are not judged "
                        "(contradictory doc comments)."),
    "C42": c("coins", "TestC42", dict(checks=2000, timeout=400), dict(checks=4000, shards=14, timeout=1500),
             technique="property-based model comparison: generated block results indexed through AddBatch/Index, searches issued as rpc/core.TxSearch builds them, "
                       "compared page by page with a sorted list model",
             design_ref="DESIGN.md §7 C42",
             level_text="Generated indexes (heights and positions of mixed decimal length, shared addresses, ante failures) and generated hash / height / signer / "
                        "recipient searches in both directions over all pages, compared with a list model; exploration only, no absence claim.",
             level_note="Runs on tm-db MemDB (not goleveldb), trusts Tendermint's query parser and Tx.Hash. The secondary `AND tx.height=` condition, "
                        "DeleteFromHeight and tx.hash searches for hashes that are not indexed are not judged."),
}
