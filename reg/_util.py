def c(group, test, quick, thorough, level="exploration", **kw):
    """group: props/<group>; test: TestCxx (or list); quick/thorough: dict(checks=, shards=, timeout=, env={}, steps=)
    required kw: technique, level_text, level_note; optional: design_ref, exhaustive, assumptions"""
    d = dict(group=group, test=test, quick=quick, thorough=thorough, level=level)
    d.update(kw)
    for k in ("technique", "level_text", "level_note"):
        assert k in d, "missing " + k
    return d
