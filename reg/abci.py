import os, sys
sys.path.insert(0, os.path.dirname(os.path.abspath(__file__)))
from _util import c

CHECKS = {
    "C11": c("abci", "TestC11", dict(checks=250, timeout=600), dict(checks=2000, shards=14, timeout=3000),
             technique="differential property-based testing: generated block history with vs without interleaved CheckTx/simulate/query noise on the real application",
             design_ref="DESIGN.md §7 C11",
             level_text="Two runs of the real application over generated worlds and block histories, one with generated CheckTx / simulate / query traffic at every point between "
                        "ABCI calls; transcripts and final store dumps must be identical. Exploration: bounded histories (≤14 blocks), small worlds.",
             level_note="Trusts the chain simulator to play Tendermint faithfully (ABCI call order, block store, tx indexer), tm-db MemDB, rapid. The process-global activation schedule "
                        "(upgrade heights, feature heights) is compared around every noise call as part of the state the next block builds on. A second test (TestC11Claims, same check) runs the differential on histories with relay claims and proofs "
                        "(the C13 generator) with the traffic restricted to CheckTx / simulate of the block's own transactions before delivery and ABCI / RPC queries at any height.",
             also=[dict(group="abci", test="TestC11Claims", quick=dict(checks=100, timeout=600), thorough=dict(checks=800, shards=8, timeout=3000))]),
}

CHECKS["C12"] = c("abci", "TestC12", dict(checks=60, timeout=600), dict(checks=500, shards=14, timeout=3000),
             technique="repeated-execution and metamorphic (time-shift) property-based testing of the real application over generated block histories",
             design_ref="DESIGN.md §7 C12",
             level_text="Same generated chain data executed 3x (globals reset, different GOMAXPROCS) must give identical transcripts; the same history shifted to both sides of the "
                        "local wall clock must give identical result codes, validator updates and balances. Exploration: bounded histories; nondeterminism that needs a particular "
                        "goroutine interleaving inside one ABCI call is not forced.",
             level_note="In-process repetition (Go re-randomises map iteration order on every range); fresh-process repetition is not part of the quick tier. Trusts the chain simulator and rapid.")

CHECKS["C15"] = c("abci", "TestC15", dict(checks=400, timeout=600), dict(checks=4000, shards=14, timeout=3000),
             technique="model-based property-based testing: generated fee / signer / signature / balance variants delivered to the real application, balances compared with a by-construction authentication model",
             design_ref="DESIGN.md §7 C15",
             level_text="Each generated send is delivered in its own block on the real application; the model knows by construction whether it authenticates and covers the fee, and demands "
                        "exact fee movement (once, payer -> fee collector) or no movement at all. Exploration over fee coin sets, single/multisig signers, signature defects, memo and balances.",
             level_note="Message kind restricted to sends so that message effects are known from the result code; required fee taken as the fixed 10000 uPOKT of the default fee multipliers.")

CHECKS["C18"] = c("abci", "TestC18", dict(checks=500, timeout=600), dict(checks=5000, shards=14, timeout=3000),
             technique="property-based testing of sends on the real application with an exact balance-delta oracle over all accounts",
             design_ref="DESIGN.md §7 C18",
             level_text="Generated sends (amounts at the spendable boundary, self, new and module recipients) delivered to the real application; after every DeliverTx the balance "
                        "delta of every account is compared with the exact expected delta. Exploration.",
             level_note="Senders are correctly signed funded accounts; fee fixed at the required 10000 uPOKT. Trusts the auth keeper's account iterator for reading balances.")

CHECKS["C17"] = c("abci", "TestC17", dict(checks=250, timeout=600), dict(checks=2500, shards=14, timeout=3000),
             technique="stateful property-based testing of the real application: invariant supply == sum of balances after every commit plus a supply-delta accounting oracle",
             design_ref="DESIGN.md §7 C17",
             level_text="Generated full-feature block histories (sends, stakes, unstakes, transfers, param changes, DAO actions, missed signatures) on the real application; after every commit "
                        "the stored supply is compared with the sum over all accounts and its change with the burns observed in the block. Exploration; minting by relay rewards is exercised "
                        "by C26 (keeper level) and C32 (claims/proofs).",
             level_note="Histories here contain no relay proofs, so any supply increase is a violation; slashes are detected from validator records (stake decrease / newly jailed).")

CHECKS["C14"] = c("abci", "TestC14", dict(checks=250, timeout=600), dict(checks=2500, shards=14, timeout=3000),
             technique="adversarial property-based testing: generated unauthorized transactions of every message kind delivered to the real application, full-state dump compared before/after",
             design_ref="DESIGN.md §7 C14",
             level_text="For every message kind and a catalogue of authentication defects the model knows by construction that the signer lacks authority; the dump of every persistent "
                        "substore must be identical before/after (or differ only by the attacker's own fee when the attacker names itself as signer). One-sided: success of authorized "
                        "transactions is not predicted here (their effects are judged by C15, C18, C23, C28, C36).",
             level_note="All features active (activation-height variation of the output-address / app-transfer exceptions is exercised by C23/C28); claim/proof messages by C32.")

CHECKS["C16"] = c("abci", "TestC16", dict(checks=200, timeout=600), dict(checks=2000, shards=14, timeout=3000),
             technique="metamorphic property-based testing: a delivered transaction is resubmitted identically and under generated semantics-preserving protobuf re-encodings (filtered through the real decoder); effect must stay single",
             design_ref="DESIGN.md §7 C16",
             level_text="For generated sends the harness produces byte-different encodings that the real decoder maps to the same signed content, resubmits them and the identical bytes in the same, "
                        "the next and a later block, and demands that none takes effect again. Exploration over the mutator's variant catalogue (17 kinds).",
             level_note="REDUP (in-block duplicate rejection) is active, as on main-net today; before that activation in-block duplicates execute twice by design and are out of the stated domain. "
                        "The wire mutator is hand-written and independent of gogoproto.")

CHECKS["C43"] = c("abci", "TestC43", dict(checks=60, timeout=600), dict(checks=400, shards=14, timeout=3000),
             technique="round-trip property-based testing: generated chain history -> ExportAppState -> InitChain of a fresh application from the export (in a subprocess) -> normalised state views compared",
             design_ref="DESIGN.md §7 C43",
             level_text="The real export and the real genesis import are exercised on generated non-trivial states (unstaking and jailed records, pools, changed params); the normalised views of "
                        "exporter and importer must agree. Exploration; import cost bounds the case count.",
             level_note="Three of four histories submit relay-factory MsgClaim transactions so that 0-4 claims are pending at export; claims are read back by a raw store scan, independent of "
                        "the exporter's GetAllClaims, and compared with the importer's pending claims (since fix f241750 an export that holds claims can be imported). Every exported pos parameter is compared "
                        "with the raw parameter store of the exporting node. The importer derives its feature schedule from the exported upgrade parameter, as a node started on the new chain would.")

CHECKS["C13"] = c("abci", "TestC13", dict(checks=150, timeout=600), dict(checks=1500, shards=14, timeout=3000),
             technique="differential property-based testing: generated history with claims/proofs/stake changes/restarts executed with vs without generated service traffic (dispatch, RPC and ABCI queries at past heights)",
             design_ref="DESIGN.md §7 C13",
             level_text="The real application runs a generated history twice, once while serving dispatch requests (through the application method and through the ABCI query route custom/pocketcore/dispatch at latest and past heights) and latest/historical queries between the ABCI calls; transcripts and final store "
                        "dumps must match. Histories contain the state changes that make a cached object stale (application edit/unstake/transfer, node edit/jail/unjail, claims for dispatched "
                        "sessions) and restarts that empty the node-local caches. Exploration.",
             level_note="Relay handling itself (HandleRelay) is exercised by C34/C35; CheckTx / simulate of the block's own transactions is part of the traffic (C11 runs the same generator restricted to CheckTx, simulate and queries). Restart points are common to both runs. A third of the histories carry an overlay that makes a historical read matter: a node leaves and re-joins a chain around a session start, the dispatch querier is asked at a height in between, a servicer claims for that session later.")
