import os, sys
sys.path.insert(0, os.path.dirname(os.path.abspath(__file__)))
from _util import c

CHECKS = {
    "C36": c("gov", "TestC36", dict(checks=400, timeout=400), dict(checks=1500, shards=14, timeout=1500),
             technique="property-based testing on the chain simulator (real application, real signed transactions) with a full-state differential "
                       "oracle around every DeliverTx: an independent ACL / DAO-owner model predicts the complete state difference",
             design_ref="DESIGN.md §7 C36",
             level_text="Generated histories of MsgChangeParam (every key of the ACL stored in state x owner / owner of another key / DAO owner / stranger / "
                        "forged sender x decodable / undecodable value, ACL reassignments and DAO-owner changes mid-history), MsgDAOTransfer (transfer and burn, "
                        "amounts 0, 1, balance, balance+1, negative) and feature-only MsgUpgrade; after each transaction every store key, every balance and the "
                        "supply are compared with the prediction; exploration only, no absence claim.",
             level_note="Valid values are restricted to domains the chain survives (BlocksPerSession >= 2, SignedBlocksWindow >= 10, allocations 1..40, non-zero stake "
                        "bins, StakeDenom = upokt, gov/upgrade with the stored height and a version <= 0.12.0, ACL reassignments keep the key set); JSON null, partial "
                        "structs and type-valid but out-of-domain values are not generated. The ante handler, the amino JSON codec and the bank keeper are trusted "
                        "only as far as the state diff shows their effects. Multisig senders are not generated. A second test (TestC36ACL, same check) judges the access-control list "
                        "abstraction itself on generated lists that name a key more than once (genesis validation and gov/acl changes accept them): GetOwner, SetOwner and repeated reads must agree on one owner per key.",
             also=[dict(group="gov", test="TestC36ACL", quick=dict(checks=4000, timeout=300), thorough=dict(checks=60000, shards=4, timeout=900))]),
    "C37": c("gov", "TestC37", dict(checks=400, timeout=400), dict(checks=1500, shards=14, timeout=1500),
             technique="model-based property testing (map feature -> height, last writer wins) of upgrade-message sequences through real MsgUpgrade transactions on the "
                       "chain simulator and through the gov keeper at main-net-like heights, followed by a restart of the real application over the same database",
             design_ref="DESIGN.md §7 C37",
             level_text="Generated sequences of version upgrades, feature-only upgrades, duplicate keys, re-scheduling and empty lists from owner and non-owner; after each "
                        "message the stored feature list (decoded from state), the activation predicates at generated heights and the on-chain activation of the "
                        "ACL-extending features are compared with the model; then the application is constructed again over the same database from process-default "
                        "globals and the restored schedule is compared with the pre-restart one; exploration only, no absence claim.",
             level_note="On the simulator (heights < 30024) version upgrades are restricted to old height < new height <= current height and versions <= 0.12.0, otherwise the "
                        "simulated chain would fall back to the amino codec / the process would exit; future version-upgrade heights and main-net-like heights are "
                        "covered only at keeper level (no blocks, no restart). Feature strings are always well-formed key:height with height >= 1. "
                        "gov/upgrade written through MsgChangeParam (which bypasses the activation globals) is outside this property."),
}
