import os, sys
sys.path.insert(0, os.path.dirname(os.path.abspath(__file__)))
from _util import c

CHECKS = {
    "C38": c("codec", "TestC38", dict(checks=30000, timeout=400), dict(checks=150000, shards=14, timeout=1500),
             technique="property-based round-trip and metamorphic testing (rapid) with a codec-independent structural comparison",
             design_ref="DESIGN.md §7 C38",
             level_text="Generated values of every registered message kind (inside signed StdTx), accounts, validators, applications, claims, "
                        "evidence, signing info, supply and the params of the five modules are encoded and decoded with the height-switched "
                        "amino/protobuf codec (bare and length-prefixed, heights around the switch under generated upgrade globals) and with JSON; "
                        "sign bytes are checked for canonical form, order invariance and single-field sensitivity. Exploration only: bounded "
                        "collection sizes, no arbitrary-bytes decoding, no absence claim.",
             level_note="Equality is semantic (nil and empty collections identified; pointer and value forms identified) through a ~150-line "
                        "reflection renderer that never calls the codec. The expected codec per height is an independent restatement of the "
                        "documented rule. Trusts go-amino, gogoproto generated marshalers only in so far as both directions are exercised; "
                        "trusts rapid and encoding/json (used to parse outputs). Non-deterministic protobuf bytes of nodes.MsgStake with >=2 reward "
                        "delegators (unordered map marshalling) are compared semantically, not byte-wise."),
    "C39": c("codec", "TestC39", dict(checks=5000, timeout=400), dict(checks=20000, shards=14, timeout=1500),
             technique="property-based testing (rapid): positive and negative signature verification, single-byte mutations, multisig assembly orderings, key encoding round trips",
             design_ref="DESIGN.md §7 C39",
             level_text="Generated ed25519/secp256k1 keys (from drawn seeds), messages of 0-256 bytes and 2-6 member (possibly nested) multisig keys: "
                        "a signature verifies for exactly the signing key and message; every single-byte change, truncation or extension of message or "
                        "signature is rejected; multisig verifies only with every member's signature in member order; key bytes/hex/JSON/amino encodings "
                        "and addresses are stable. Exploration only, no absence claim.",
             level_note="Negative cases assume the underlying ed25519 / secp256k1 (btcec) primitives are unforgeable: a mutated signature verifying "
                        "would be reported as a violation. Address derivations are restated independently (sha256-20 for ed25519 and multisig, "
                        "ripemd160(sha256) for secp256k1). Trusts rapid."),
    "C40": c("codec", "TestC40", dict(checks=60, timeout=600), dict(checks=250, shards=14, timeout=1500),
             technique="stateful property-based testing (rapid state machine) of the keybase against a map model, plus armor round-trip / wrong-passphrase / corruption checks",
             design_ref="DESIGN.md §7 C40",
             level_text="Generated keys, passphrases (empty, ASCII, unicode, long) and hints: armored keys decrypt to the identical key with the right "
                        "passphrase and to nothing with any other passphrase or after a single-character corruption of salt/ciphertext/kdf; operation "
                        "sequences (create, import armored/raw, get, list, sign, update, export, delete, each with right and wrong passphrases) on the "
                        "in-memory and the on-disk (lazy) keybase agree with a map address -> (key, passphrase). Exploration only: scrypt costs ~0.1 s "
                        "per operation, so histories are short and few; no absence claim.",
             level_note="Keybase.Create and the armor salt use the OS RNG inside the code under test; cases refer to such keys by slot so the verdict "
                        "does not depend on the random values. Trusts AES-GCM/scrypt from the Go ecosystem, tm-db MemDB / goleveldb, rapid and the "
                        "~40-line map model."),
}
