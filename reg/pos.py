import os, sys
sys.path.insert(0, os.path.dirname(os.path.abspath(__file__)))
from _util import c

_TECH = ("trace monitoring of the real application in the chain simulator: state-aware generated block histories "
         "(txs, votes, evidence, time steps, gov parameter changes), oracle recomputed from raw store snapshots per block")
_NOTE = ("Trusts the chain simulator to play Tendermint faithfully (ABCI order, 2-block validator-set delay, LastCommitInfo from the reported sets), the raw "
         "readers of harness/posview (prefix scans + the application codec), tm-db MemDB and rapid. Challenge burns / relay rewards are invoked through the nodes "
         "keeper inside a block exactly as the pocketcore proof handler invokes them (no claim/proof transactions are generated). Only the fully upgraded feature "
         "set (non-custodial, validator split, every named feature active from height 3) is explored; heights stay below the hard-coded fork heights (e.g. 30040).")

CHECKS = {
    "C19": c("pos", "TestC19", dict(checks=300, timeout=600), dict(checks=4500, shards=14, timeout=3000),
             technique=_TECH, design_ref="DESIGN.md §7 C19",
             level_text="After every commit of generated histories (stake, edit-stake bump, begin-unstake, maturity payout, downtime and double-sign slashes, challenge burns, "
                        "forced unstake, reward mints) the node staking pool balance must equal the sum of StakedTokens of Staked+Unstaking records, both read raw. "
                        "Exploration: 14-34 blocks per history, worlds of 2-9 nodes; no absence claim.",
             level_note=_NOTE),
    "C21": c("pos", "TestC21", dict(checks=300, timeout=600), dict(checks=4500, shards=14, timeout=3000),
             technique=_TECH, design_ref="DESIGN.md §7 C21",
             level_text="After every commit the staked-by-power index, the per-chain index and the unstaking queue (raw prefix scans) must equal, as sets, what the raw node records "
                        "demand (duplicates inside one queue entry tolerated; jailed staked nodes stay in the per-chain index). Exploration: bounded histories and worlds.",
             level_note=_NOTE),
    "C22": c("pos", "TestC22", dict(checks=300, timeout=600), dict(checks=4500, shards=14, timeout=3000),
             technique=_TECH, design_ref="DESIGN.md §7 C22",
             level_text="The consensus set obtained by applying every block's ValidatorUpdates cumulatively must, after every block, consist of staked unjailed nodes with their current "
                        "power, have min(MaxValidators, available) members and contain no node weaker than an outsider (ties either way). Exploration: bounded histories, "
                        "MaxValidators 1..6, worlds of 2-9 nodes.",
             level_note=_NOTE + " The tie-break among equal powers at the MaxValidators boundary is deliberately not fixed by the oracle."),
    "C24": c("pos", ["TestC24", "TestC24Apps"], dict(checks=230, timeout=600), dict(checks=3500, shards=14, timeout=3000),
             technique=_TECH, design_ref="DESIGN.md §7 C24",
             level_text="Two tests, nodes (TestC24) and applications (TestC24Apps), each run with the configured case count. Per-block trace monitor: Staked is left only at a session end after an accepted "
                        "begin-unstake by operator/output or an observable forced unstake; completion time = block time + UnstakingTime; the record disappears in the first block "
                        "with time >= completion and the output address gains exactly the stake (exact comparison when no other generated flow touches that address in the block). "
                        "Applications: Staked is left only through an accepted begin-unstake (or transfer) signed by the application itself; same maturity and payout rules. "
                        "Exploration: bounded histories.",
             level_note=_NOTE + " Forced unstake is recognised one-sidedly from observable evidence (jailed and below minimum stake, or jailed-blocks counter at the limit, or an "
                        "authorized unjail below the minimum) rather than predicted. Exactly-once is judged in the payout block; a second payout in a later block would surface as a C19 pool mismatch."),
    "C25": c("pos", "TestC25", dict(checks=220, timeout=600), dict(checks=3500, shards=14, timeout=3000),
             technique=_TECH + "; plus a metamorphic replay of the recorded history with all times shifted by 100 years",
             design_ref="DESIGN.md §7 C25",
             level_text="Snapshots before the block, after BeginBlock, after every challenge burn and after commit: stake removed == supply burned == pool decrease per slashing phase, "
                        "never more than the stake, only offenders slashed; below minimum => jailed and queued; jailed => outside the reported consensus set and every dispatched session; "
                        "unjail <=> authorized signer, stake >= minimum, block time >= end of the jail period (block times in 2001 and 2101; shifted replay must give the same transcript). "
                        "The end of a jail period is the monitor's own memory (block time of the jailing block + DowntimeJailDuration, checked against the stored JailedUntil when the node is jailed "
                        "and kept until the node is seen unjailed), so an unjail is judged against it whatever the signing info says by then (edit-stake while jailed, signing-window rollover at "
                        "height %% 10 == 0: jailing in the last two blocks of a window / first block of the next, and unjail attempts in the last block before / first block at the deadline, are generated classes). "
                        "Exploration: bounded histories (16-36 blocks).",
             level_note=_NOTE + " Expected slash AMOUNTS are not predicted (that would re-implement the weight formula); 'must be accepted' is only demanded for an unjail that is the single "
                        "message about that node in its block."),
}
